package world

import (
	"crypto/sha256"
	"encoding/json"
	"fmt"
	"io"
	"log"
	"os"
	"path/filepath"
	"runtime/debug"
	"sync"
	"syscall"

	"github.com/tyler-smith/go-bip39"

	"github.com/lidofinance/dc4bc/airgapped"
	"github.com/lidofinance/dc4bc/client/types"
)

func init() {
	// scrypt with N=2^16 costs ~100 ms per keyring access; the exported knob keeps the real code
	// path and makes exhaustive exploration affordable.
	airgapped.N = 2
	log.SetOutput(io.Discard)
}

// Password used for every harness machine.
const Password = "verif-password"

// Mnemonic derives a valid BIP-39 mnemonic from a label.
func Mnemonic(label string) string {
	e := sha256.Sum256([]byte("verif-air:" + label))
	m, err := bip39.NewMnemonic(e[:])
	if err != nil {
		panic(err)
	}
	return m
}

// Air is one real airgapped machine on its own LevelDB directory.
type Air struct {
	M        *airgapped.Machine
	Dir      string
	Results  string
	Mnemonic string
	Label    string
	// Ops is the sequence of request operations fed so far (the machine's identity for memoisation)
	Ops []string
}

var scratchOnce sync.Once
var scratchRoot string

// Scratch returns a per-process scratch directory on tmpfs, removed by Cleanup.
func Scratch() string {
	scratchOnce.Do(func() {
		base := "/dev/shm"
		if st, err := os.Stat(base); err != nil || !st.IsDir() {
			base = os.TempDir()
		}
		d, err := os.MkdirTemp(base, "verif-dc4bc-")
		if err != nil {
			panic(err)
		}
		scratchRoot = d
	})
	return scratchRoot
}

// Cleanup removes the scratch directory.
func Cleanup() {
	if scratchRoot != "" {
		os.RemoveAll(scratchRoot)
	}
}

var dirSeq int
var dirMu sync.Mutex

func NewDir(prefix string) string {
	dirMu.Lock()
	dirSeq++
	n := dirSeq
	dirMu.Unlock()
	d := filepath.Join(Scratch(), fmt.Sprintf("%s-%d", prefix, n))
	if err := os.MkdirAll(d, 0o755); err != nil {
		panic(err)
	}
	return d
}

// stdout silencer: the airgapped signer prints a progress bar with fmt.Print.
var silenceOnce sync.Once

// SilenceStdout redirects fd 1 to /dev/null and returns a writer to the original stdout.
var RealStdout *os.File = os.Stdout

func SilenceStdout() {
	silenceOnce.Do(func() {
		fd, err := syscall.Dup(1)
		if err != nil {
			return
		}
		RealStdout = os.NewFile(uintptr(fd), "stdout")
		devnull, err := os.OpenFile("/dev/null", os.O_WRONLY, 0)
		if err != nil {
			return
		}
		_ = syscall.Dup2(int(devnull.Fd()), 1)
	})
}

// NewAir creates a machine from a mnemonic label (deterministic keys).
func NewAir(label string) (*Air, error) {
	a := &Air{Dir: NewDir("air"), Mnemonic: Mnemonic(label), Label: label}
	a.Results = filepath.Join(a.Dir, "results")
	if err := os.MkdirAll(a.Results, 0o755); err != nil {
		return nil, err
	}
	if err := a.open(true); err != nil {
		return nil, err
	}
	return a, nil
}

// NewAirWithMnemonic creates a machine in a new directory from an explicit mnemonic.
func NewAirWithMnemonic(label, mnemonic string) (*Air, error) {
	a := &Air{Dir: NewDir("air"), Mnemonic: mnemonic, Label: label}
	a.Results = filepath.Join(a.Dir, "results")
	if err := os.MkdirAll(a.Results, 0o755); err != nil {
		return nil, err
	}
	if err := a.open(true); err != nil {
		return nil, err
	}
	return a, nil
}

func (a *Air) dbPath() string { return filepath.Join(a.Dir, "db") }

// MnemonicEntries is how many times the operator runs `set_seed` with the mnemonic when a machine
// is set up (1 = the documented procedure; 2 = the operator enters it twice).
var MnemonicEntries = 1

// open mirrors cmd/airgapped: NewMachine, the password prompt (SetEncryptionKey + InitKeys) and,
// on a fresh database, the `set_seed` command (SetBaseSeed + GenerateKeys).
func (a *Air) open(first bool) error {
	m, err := airgapped.NewMachine(a.dbPath())
	if err != nil {
		return err
	}
	m.SetResultFolder(a.Results)
	m.SetEncryptionKey([]byte(Password))
	if err := m.InitKeys(); err != nil {
		return err
	}
	if first {
		for i := 0; i < MnemonicEntries; i++ {
			if err := m.SetBaseSeed(a.Mnemonic); err != nil {
				return err
			}
			if err := m.GenerateKeys(); err != nil {
				return err
			}
		}
	}
	a.M = m
	return nil
}

// Restart closes the database, reopens it as a new process would and (optionally) replays the
// operation log of the given rounds, as HowTo.md instructs after a restart.
func (a *Air) Restart(replayRounds ...string) error {
	if a.M != nil {
		_ = a.M.VerifCloseDB()
		a.M = nil
	}
	if err := a.open(false); err != nil {
		return err
	}
	for _, r := range replayRounds {
		if err := a.M.ReplayOperationsLog(r); err != nil {
			return fmt.Errorf("replay %s: %w", r, err)
		}
	}
	return nil
}

// Close closes the machine's database.
func (a *Air) Close() {
	if a.M != nil {
		_ = a.M.VerifCloseDB()
		a.M = nil
	}
}

// Process feeds a request operation through Machine.ProcessOperation (operation log + result
// file) and returns the result parsed back from the result FILE (the JSON file round trip the
// operator performs with a QR code / USB stick).
func (a *Air) Process(op *types.Operation) (*types.Operation, error) {
	// the operator's tool writes the request to a JSON file and the machine reads it back
	reqBz, err := json.Marshal(op)
	if err != nil {
		return nil, err
	}
	var req types.Operation
	if err := json.Unmarshal(reqBz, &req); err != nil {
		return nil, err
	}
	// (a result file of the same operation may already be there: the machine overwrites it)
	var path string
	func() {
		defer func() {
			if rec := recover(); rec != nil {
				if cs, ok := rec.(CrashSentinel); ok {
					err = &MachineKilled{Point: cs.Point}
					return
				}
				err = &MachinePanic{V: rec, Stack: string(debug.Stack())}
			}
		}()
		path, err = a.M.ProcessOperation(req, true)
	}()
	if err != nil {
		return nil, err
	}
	if !op.IsSigningState() {
		a.Ops = append(a.Ops, op.ID)
	}
	bz, err := os.ReadFile(path)
	if err != nil {
		return nil, err
	}
	var res types.Operation
	if err := json.Unmarshal(bz, &res); err != nil {
		return nil, fmt.Errorf("result file does not parse: %w", err)
	}
	return &res, nil
}

// MachineKilled reports that the harness killed the machine process at an injected crash point.
type MachineKilled struct{ Point string }

func (m *MachineKilled) Error() string { return "airgapped machine killed at " + m.Point }

// DBPath returns the machine's LevelDB directory (for write hooks).
func (a *Air) DBPath() string { return a.dbPath() }

// ResultFile returns the path of the result file of an operation.
func (a *Air) ResultFile(op *types.Operation) string {
	return filepath.Join(a.Results, op.Filename()+"_result.json")
}

// MachinePanic reports that Machine.ProcessOperation panicked (the real process would have died).
type MachinePanic struct {
	V     interface{}
	Stack string
}

func (m *MachinePanic) Error() string { return fmt.Sprintf("airgapped machine PANIC: %v", m.V) }

// PubKeyBytes returns the machine's long-term DKG public key.
func (a *Air) PubKeyBytes() []byte {
	bz, err := a.M.GetPubKey().MarshalBinary()
	if err != nil {
		panic(err)
	}
	return bz
}
