package world

import (
	"fmt"
	"io"
	"os"
	"path/filepath"
)

func copyDir(src, dst string) error {
	return filepath.Walk(src, func(p string, info os.FileInfo, err error) error {
		if err != nil {
			return err
		}
		rel, _ := filepath.Rel(src, p)
		target := filepath.Join(dst, rel)
		if info.IsDir() {
			return os.MkdirAll(target, 0o755)
		}
		in, err := os.Open(p)
		if err != nil {
			return err
		}
		defer in.Close()
		out, err := os.OpenFile(target, os.O_CREATE|os.O_WRONLY|os.O_TRUNC, 0o644)
		if err != nil {
			return err
		}
		defer out.Close()
		_, err = io.Copy(out, in)
		return err
	})
}

// CloneAir copies a machine's database directory and brings the copy up the way the product
// does after a restart (NewMachine, password, InitKeys, ReplayOperationsLog for the rounds).
// The source machine is closed for the copy and restarted the same way.
func CloneAir(src *Air, rounds ...string) (*Air, error) {
	src.Close()
	dst := &Air{Dir: NewDir("air"), Mnemonic: src.Mnemonic, Label: src.Label, Ops: append([]string(nil), src.Ops...)}
	dst.Results = filepath.Join(dst.Dir, "results")
	if err := copyDir(src.Dir, dst.Dir); err != nil {
		return nil, err
	}
	_ = os.Remove(filepath.Join(dst.dbPath(), "LOCK"))
	if err := src.Restart(rounds...); err != nil {
		return nil, fmt.Errorf("restart of source machine: %w", err)
	}
	if err := dst.Restart(rounds...); err != nil {
		return nil, fmt.Errorf("start of cloned machine: %w", err)
	}
	return dst, nil
}

// Clone builds a second world in the same state: node stores and board are copied, machines are
// cloned through their databases.
func (w *World) Clone(rounds ...string) (*World, error) {
	c := &World{N: w.N, T: w.T, Board: NewBoard(), Round: w.Round, Names: append([]string(nil), w.Names...)}
	c.Board.SetLog(w.Board.Log())
	for i, n := range w.Nodes {
		nd, err := NewMemNode(n.Name, c.Board)
		if err != nil {
			return nil, err
		}
		nd.Mem.Restore(n.Mem.Snapshot())
		c.Nodes = append(c.Nodes, nd)
		a, err := CloneAir(w.Airs[i], rounds...)
		if err != nil {
			return nil, err
		}
		c.Airs = append(c.Airs, a)
	}
	return c, nil
}
