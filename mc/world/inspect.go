package world

import (
	"encoding/json"

	sigrepo "github.com/lidofinance/dc4bc/client/repositories/signature"
	"github.com/lidofinance/dc4bc/client/types"
	"github.com/lidofinance/dc4bc/fsm/state_machines"
)

// Keys of the node's state store (as composed by the repositories).
const (
	FSMKey     = Topic + "_fsm_state"
	OpsKey     = Topic + "_operations"
	DelOpsKey  = Topic + "_deleted_operations"
	OffsetKeyS = Topic + "_offset"
)

func SigKey(round string) string { return "signatures_" + round }

// Rounds lists the round ids present in a snapshot's FSM blob with their raw dumps.
func (sn Snapshot) Rounds() map[string][]byte {
	out := map[string][]byte{}
	if v, ok := sn[FSMKey]; ok && len(v) > 0 {
		_ = json.Unmarshal([]byte(v), &out)
	}
	return out
}

// Dump parses the FSM dump of a round from a snapshot (nil if absent).
func (sn Snapshot) Dump(round string) *state_machines.FSMDump {
	raw, ok := sn.Rounds()[round]
	if !ok {
		return nil
	}
	var d state_machines.FSMDump
	if err := json.Unmarshal(raw, &d); err != nil {
		return nil
	}
	return &d
}

// RoundState returns the state name of a round in a snapshot.
func (sn Snapshot) RoundState(round string) string {
	d := sn.Dump(round)
	if d == nil {
		return ""
	}
	return string(d.State)
}

// Signatures parses the signature store of a round.
func (sn Snapshot) Signatures(round string) sigrepo.SignaturesStorage {
	v, ok := sn[SigKey(round)]
	if !ok {
		return nil
	}
	var s sigrepo.SignaturesStorage
	if err := json.Unmarshal([]byte(v), &s); err != nil {
		return nil
	}
	return s
}

// RawOps parses the operation pool and the tombstones as stored.
func (sn Snapshot) RawOps() (ops, deleted map[string]*types.Operation) {
	ops, deleted = map[string]*types.Operation{}, map[string]*types.Operation{}
	if v, ok := sn[OpsKey]; ok {
		_ = json.Unmarshal([]byte(v), &ops)
	}
	if v, ok := sn[DelOpsKey]; ok {
		_ = json.Unmarshal([]byte(v), &deleted)
	}
	return
}
