package world

import (
	"crypto/sha256"
	"encoding/hex"
	"fmt"
	"sort"

	"github.com/lidofinance/dc4bc/client/api/dto"
	"github.com/lidofinance/dc4bc/client/types"
	"github.com/lidofinance/dc4bc/fsm/fsm"
	dpf "github.com/lidofinance/dc4bc/fsm/state_machines/dkg_proposal_fsm"
	spf "github.com/lidofinance/dc4bc/fsm/state_machines/signature_proposal_fsm"
	sif "github.com/lidofinance/dc4bc/fsm/state_machines/signing_proposal_fsm"
	"github.com/lidofinance/dc4bc/fsm/types/requests"
	"github.com/lidofinance/dc4bc/storage"
)

// World = n real nodes + n real airgapped machines + one in-memory board.
type World struct {
	N     int
	T     int
	Board *Board
	Nodes []*Node
	Airs  []*Air
	Round string
	// AirLabelPrefix distinguishes machine families (mnemonics)
	Names []string
}

func NodeName(i int) string { return fmt.Sprintf("node_%d", i) }

// NewWorld builds n nodes (mem state) and n machines with deterministic keys.
func NewWorld(n int) (*World, error) {
	w := &World{N: n, Board: NewBoard()}
	for i := 0; i < n; i++ {
		name := NodeName(i)
		nd, err := NewMemNode(name, w.Board)
		if err != nil {
			return nil, err
		}
		a, err := NewAir(name)
		if err != nil {
			return nil, err
		}
		w.Nodes = append(w.Nodes, nd)
		w.Airs = append(w.Airs, a)
		w.Names = append(w.Names, name)
	}
	return w, nil
}

// Close stops nodes and closes machine databases.
func (w *World) Close() {
	for _, n := range w.Nodes {
		n.Stop()
	}
	for _, a := range w.Airs {
		a.Close()
	}
}

// InitProposal builds the opening proposal of a round over the given participant indices.
func (w *World) InitProposal(t int, idx []int) requests.SignatureProposalParticipantsListRequest {
	var ps []*requests.SignatureProposalParticipantsEntry
	for _, i := range idx {
		ps = append(ps, &requests.SignatureProposalParticipantsEntry{
			Username:  w.Nodes[i].Name,
			PubKey:    w.Nodes[i].KeyPair.Pub,
			DkgPubKey: w.Airs[i].PubKeyBytes(),
		})
	}
	return requests.SignatureProposalParticipantsListRequest{Participants: ps, SigningThreshold: t, CreatedAt: T0}
}

func RoundID(payload []byte) string {
	h := sha256.Sum256(payload)
	return hex.EncodeToString(h[:])
}

// StartDKG posts the opening proposal through the real StartDKG API of node `by`.
func (w *World) StartDKG(t int, by int) (string, error) {
	idx := make([]int, w.N)
	for i := range idx {
		idx[i] = i
	}
	return w.StartDKGOver(t, by, idx, nil)
}

// StartDKGOver starts a round over a subset / permutation of participants. salt (optional) is
// not part of the protocol: a different CreatedAt makes a different payload and so a different
// round id.
func (w *World) StartDKGOver(t int, by int, idx []int, tweak func(*requests.SignatureProposalParticipantsListRequest)) (string, error) {
	req := w.InitProposal(t, idx)
	if tweak != nil {
		tweak(&req)
	}
	payload := MustJSON(req)
	if err := w.Nodes[by].Svc.StartDKG(&dto.StartDkgDTO{Payload: payload}); err != nil {
		return "", err
	}
	w.T = t
	w.Round = RoundID(payload)
	return w.Round, nil
}

// DrainAll lets every node consume the whole board (eager polling) until nothing new appears.
func (w *World) DrainAll() error {
	for {
		progressed := false
		for _, n := range w.Nodes {
			if int(n.Offset()) < w.Board.Len() {
				if err := n.Drain(); err != nil {
					return err
				}
				progressed = true
			}
		}
		if !progressed {
			return nil
		}
	}
}

// Answer computes the result for a pending operation of node i without submitting it.
// For the invitation it returns nil (ApproveParticipation builds the answer inside the node).
func (w *World) Answer(i int, op *types.Operation) (*types.Operation, error) {
	if fsm.State(op.Type) == spf.StateAwaitParticipantsConfirmations {
		return nil, nil
	}
	return w.Airs[i].Process(op)
}

// Operate lets operator i answer one pending operation (by id) through the airgapped machine
// and submit the result to the node.
func (w *World) Operate(i int, opID string) error {
	ops, err := w.Nodes[i].Ops.GetOperations()
	if err != nil {
		return err
	}
	op, ok := ops[opID]
	if !ok {
		return fmt.Errorf("operation %s not pending on node %d", opID, i)
	}
	if fsm.State(op.Type) == spf.StateAwaitParticipantsConfirmations {
		return w.Nodes[i].Svc.ApproveParticipation(&dto.OperationIdDTO{OperationID: opID})
	}
	res, err := w.Airs[i].Process(op)
	if err != nil {
		return fmt.Errorf("airgapped: %w", err)
	}
	return w.Nodes[i].SubmitResult(res)
}

// OperateAll answers every pending operation on every node, in node order, ops sorted by id.
func (w *World) OperateAll() (int, error) {
	cnt := 0
	for i, n := range w.Nodes {
		for _, op := range n.PendingOps() {
			if err := w.Operate(i, op.ID); err != nil {
				return cnt, fmt.Errorf("node %d op %s (%s): %w", i, op.ID, op.Type, err)
			}
			cnt++
		}
	}
	return cnt, nil
}

// RunToQuiescence alternates eager polling and answering until nothing is pending.
func (w *World) RunToQuiescence() error {
	for iter := 0; iter < 100; iter++ {
		if err := w.DrainAll(); err != nil {
			return err
		}
		c, err := w.OperateAll()
		if err != nil {
			return err
		}
		if c == 0 && w.allDrained() {
			return nil
		}
	}
	return fmt.Errorf("no quiescence after 100 rounds")
}

func (w *World) allDrained() bool {
	for _, n := range w.Nodes {
		if int(n.Offset()) < w.Board.Len() {
			return false
		}
	}
	return true
}

// RunDKG performs a complete honest key generation with threshold t (canonical schedule).
func (w *World) RunDKG(t int) (string, error) {
	round, err := w.StartDKG(t, w.N-1)
	if err != nil {
		return "", err
	}
	if err := w.RunToQuiescence(); err != nil {
		return round, err
	}
	for i, n := range w.Nodes {
		if st := n.RoundState(round); st != string(sif.StateSigningIdle) {
			return round, fmt.Errorf("node %d ended in %q", i, st)
		}
	}
	return round, nil
}

// ProposalMessage builds a signed event_signing_start message with a chosen batch id, exactly
// as BaseNodeService.ProposeSignMessages does (which draws a random uuid).
func (w *World) ProposalMessage(by int, round, batchID string, tasks []requests.SigningTask) storage.Message {
	n := w.Nodes[by]
	pid := by
	if d := n.Dump(round); d != nil {
		if id, ok := d.Payload.IDs[n.Name]; ok {
			pid = id
		}
	}
	req := requests.SigningBatchProposalStartRequest{BatchID: batchID, ParticipantId: pid, CreatedAt: T0, SigningTasks: tasks}
	return SignedMessage(round, string(sif.EventSigningStart), MustJSON(req), n.Name, n.KeyPair.Priv, "")
}

// Propose posts a signing proposal on behalf of node `by`.
func (w *World) Propose(by int, round, batchID string, tasks []requests.SigningTask) storage.Message {
	return w.Board.Post(w.ProposalMessage(by, round, batchID, tasks))
}

// SimpleTasks builds tasks with explicit payloads.
func SimpleTasks(prefix string, payloads ...[]byte) []requests.SigningTask {
	var out []requests.SigningTask
	for i, p := range payloads {
		out = append(out, requests.SigningTask{MessageID: fmt.Sprintf("%s-msg%d", prefix, i), File: fmt.Sprintf("%s-file%d", prefix, i), Payload: p})
	}
	return out
}

// Phases of the DKG in order (state awaited → deliver event).
var Phases = []struct {
	State   fsm.State
	Deliver fsm.Event
	Fail    fsm.Event
}{
	{spf.StateAwaitParticipantsConfirmations, spf.EventConfirmSignatureProposal, spf.EventDeclineProposal},
	{dpf.StateDkgCommitsAwaitConfirmations, dpf.EventDKGCommitConfirmationReceived, dpf.EventDKGCommitConfirmationError},
	{dpf.StateDkgDealsAwaitConfirmations, dpf.EventDKGDealConfirmationReceived, dpf.EventDKGDealConfirmationError},
	{dpf.StateDkgResponsesAwaitConfirmations, dpf.EventDKGResponseConfirmationReceived, dpf.EventDKGResponseConfirmationError},
	{dpf.StateDkgMasterKeyAwaitConfirmations, dpf.EventDKGMasterKeyConfirmationReceived, dpf.EventDKGMasterKeyConfirmationError},
}

// SortedKeys helper.
func SortedKeys[V any](m map[string]V) []string {
	out := make([]string, 0, len(m))
	for k := range m {
		out = append(out, k)
	}
	sort.Strings(out)
	return out
}

// NewWorldCustom builds a world with explicit participant names and machine mnemonics; the
// nodes' communication keys are derived from keyPrefix+name (fresh keys for a reinitialisation).
func NewWorldCustom(names, mnemonics []string, keyPrefix string) (*World, error) {
	w := &World{N: len(names), Board: NewBoard()}
	for i, name := range names {
		nd, err := NewNodeOver(name, DetKeyPair(keyPrefix+name), NewMemState(Topic), w.Board.NewHandle())
		if err != nil {
			return nil, err
		}
		a, err := NewAirWithMnemonic(name, mnemonics[i])
		if err != nil {
			return nil, err
		}
		w.Nodes = append(w.Nodes, nd)
		w.Airs = append(w.Airs, a)
		w.Names = append(w.Names, name)
	}
	return w, nil
}

// OperateAllReverse answers pending operations in reverse node order (another delivery order).
func (w *World) OperateAllReverse() (int, error) {
	cnt := 0
	for i := len(w.Nodes) - 1; i >= 0; i-- {
		ops := w.Nodes[i].PendingOps()
		for j := len(ops) - 1; j >= 0; j-- {
			if err := w.Operate(i, ops[j].ID); err != nil {
				return cnt, fmt.Errorf("node %d op %s (%s): %w", i, ops[j].ID, ops[j].Type, err)
			}
			cnt++
		}
	}
	return cnt, nil
}

// RunToQuiescenceReverse is RunToQuiescence with the reverse answer order.
func (w *World) RunToQuiescenceReverse() error {
	for iter := 0; iter < 100; iter++ {
		if err := w.DrainAll(); err != nil {
			return err
		}
		c, err := w.OperateAllReverse()
		if err != nil {
			return err
		}
		if c == 0 && w.allDrained() {
			return nil
		}
	}
	return fmt.Errorf("no quiescence after 100 rounds")
}
