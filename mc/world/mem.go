// Package world builds an in-process dc4bc deployment out of the REAL node service, FSM service,
// repositories and airgapped machines, over harness-owned (snapshot-able) state stores and an
// in-memory bulletin board.
package world

import (
	"crypto/sha256"
	"encoding/binary"
	"encoding/hex"
	"encoding/json"
	"errors"
	"fmt"
	"sort"
	"strconv"
	"sync"

	"github.com/syndtr/goleveldb/leveldb"

	"github.com/lidofinance/dc4bc/client/modules/state"
	"github.com/lidofinance/dc4bc/storage"
)

const Topic = "verif"

// ---------------------------------------------------------------------------------------------
// MemState: state.State with the observable semantics of LevelDBState (cross-checked against
// the real LevelDBState by the conformance self-test, see conformance.go).

type MemState struct {
	mu    sync.Mutex
	kv    map[string][]byte
	topic string
	// Resets counts Reset() calls (the real implementation opens a new empty database)
	Resets int
	// failAt > 0: the failAt-th write (Set/Delete/SaveOffset) after Arm fails once, as a full
	// disk would; an environment answer that the explorations choose
	failAt, writes int
	fired          bool
}

// ErrInjected is the error of an injected write failure.
var ErrInjected = errors.New("injected: no space left on device")

// Arm makes the k-th write from now fail (once). Disarm reports whether it did.
func (s *MemState) Arm(k int) { s.mu.Lock(); s.failAt, s.writes, s.fired = k, 0, false; s.mu.Unlock() }
func (s *MemState) Disarm() bool {
	s.mu.Lock()
	defer s.mu.Unlock()
	f := s.fired
	s.failAt, s.writes, s.fired = 0, 0, false
	return f
}

// failing is called with the lock held at the start of every write.
func (s *MemState) failing() bool {
	if s.failAt <= 0 {
		return false
	}
	s.writes++
	if s.writes == s.failAt {
		s.fired = true
		return true
	}
	return false
}

var _ state.State = (*MemState)(nil)

func NewMemState(topic string) *MemState {
	s := &MemState{kv: map[string][]byte{}, topic: topic}
	s.initOffset()
	return s
}

func (s *MemState) offKey() string { return string(state.MakeCompositeKey(s.topic, state.OffsetKey)) }

func (s *MemState) initOffset() {
	if _, ok := s.kv[s.offKey()]; !ok {
		s.kv[s.offKey()] = make([]byte, 8)
	}
}

func cp(b []byte) []byte {
	if b == nil {
		return nil
	}
	out := make([]byte, len(b))
	copy(out, b)
	return out
}

func (s *MemState) Get(key string) ([]byte, error) {
	s.mu.Lock()
	defer s.mu.Unlock()
	v, ok := s.kv[key]
	if !ok {
		return nil, nil
	}
	return cp(v), nil
}

func (s *MemState) GetOrError(key string) ([]byte, error) {
	s.mu.Lock()
	defer s.mu.Unlock()
	v, ok := s.kv[key]
	if !ok {
		return nil, leveldb.ErrNotFound
	}
	return cp(v), nil
}

func (s *MemState) Set(key string, value []byte) error {
	s.mu.Lock()
	defer s.mu.Unlock()
	if s.failing() {
		return ErrInjected
	}
	if value == nil {
		value = []byte{}
	}
	s.kv[key] = cp(value)
	return nil
}

func (s *MemState) Delete(key string) error {
	s.mu.Lock()
	defer s.mu.Unlock()
	if s.failing() {
		return ErrInjected
	}
	delete(s.kv, key)
	return nil
}

func (s *MemState) Reset(stateDbPath string) (string, error) {
	s.mu.Lock()
	defer s.mu.Unlock()
	s.kv = map[string][]byte{}
	s.initOffset()
	s.Resets++
	if stateDbPath == "" {
		stateDbPath = "mem_reset_" + strconv.Itoa(s.Resets)
	}
	return stateDbPath, nil
}

func (s *MemState) SaveOffset(o uint64) error {
	s.mu.Lock()
	defer s.mu.Unlock()
	if s.failing() {
		return ErrInjected
	}
	bz := make([]byte, 8)
	binary.LittleEndian.PutUint64(bz, o)
	s.kv[s.offKey()] = bz
	return nil
}

func (s *MemState) LoadOffset() (uint64, error) {
	s.mu.Lock()
	defer s.mu.Unlock()
	bz, ok := s.kv[s.offKey()]
	if !ok {
		return 0, fmt.Errorf("failed to read offset: %w", leveldb.ErrNotFound)
	}
	return binary.LittleEndian.Uint64(bz), nil
}

// Snapshot is an immutable copy of a state store.
type Snapshot map[string]string

func (s *MemState) Snapshot() Snapshot {
	s.mu.Lock()
	defer s.mu.Unlock()
	out := make(Snapshot, len(s.kv))
	for k, v := range s.kv {
		out[k] = string(v)
	}
	return out
}

func (s *MemState) Restore(sn Snapshot) {
	s.mu.Lock()
	defer s.mu.Unlock()
	s.kv = make(map[string][]byte, len(sn))
	for k, v := range sn {
		s.kv[k] = []byte(v)
	}
}

// Hash of a snapshot (byte exact).
func (sn Snapshot) Hash() string {
	keys := make([]string, 0, len(sn))
	for k := range sn {
		keys = append(keys, k)
	}
	sort.Strings(keys)
	h := sha256.New()
	for _, k := range keys {
		fmt.Fprintf(h, "%d:%s=%d:", len(k), k, len(sn[k]))
		h.Write([]byte(sn[k]))
	}
	return hex.EncodeToString(h.Sum(nil))[:24]
}

// WithoutOffset returns a copy without the offset key.
func (sn Snapshot) WithoutOffset() Snapshot {
	out := Snapshot{}
	ok := string(state.MakeCompositeKey(Topic, state.OffsetKey))
	for k, v := range sn {
		if k != ok {
			out[k] = v
		}
	}
	return out
}

func (sn Snapshot) Equal(o Snapshot) bool {
	if len(sn) != len(o) {
		return false
	}
	for k, v := range sn {
		if ov, ok := o[k]; !ok || ov != v {
			return false
		}
	}
	return true
}

// DiffKeys lists keys whose values differ.
func (sn Snapshot) DiffKeys(o Snapshot) []string {
	m := map[string]bool{}
	for k, v := range sn {
		if ov, ok := o[k]; !ok || ov != v {
			m[k] = true
		}
	}
	for k := range o {
		if _, ok := sn[k]; !ok {
			m[k] = true
		}
	}
	var out []string
	for k := range m {
		out = append(out, k)
	}
	sort.Strings(out)
	return out
}

// ---------------------------------------------------------------------------------------------
// HookedState delegates to another State and calls hooks around every operation (scheduling
// points, crash points).

type StateHook func(op, key, phase string)

type HookedState struct {
	Inner state.State
	Hook  StateHook
}

var _ state.State = (*HookedState)(nil)

func (h *HookedState) call(op, key, phase string) {
	if h.Hook != nil {
		h.Hook(op, key, phase)
	}
}
func (h *HookedState) Get(key string) ([]byte, error) {
	h.call("get", key, "pre")
	v, e := h.Inner.Get(key)
	h.call("get", key, "post")
	return v, e
}
func (h *HookedState) GetOrError(key string) ([]byte, error) {
	h.call("get", key, "pre")
	v, e := h.Inner.GetOrError(key)
	h.call("get", key, "post")
	return v, e
}
func (h *HookedState) Set(key string, value []byte) error {
	h.call("set", key, "pre")
	e := h.Inner.Set(key, value)
	h.call("set", key, "post")
	return e
}
func (h *HookedState) Delete(key string) error {
	h.call("delete", key, "pre")
	e := h.Inner.Delete(key)
	h.call("delete", key, "post")
	return e
}
func (h *HookedState) Reset(p string) (string, error) {
	h.call("reset", "", "pre")
	s, e := h.Inner.Reset(p)
	h.call("reset", "", "post")
	return s, e
}
func (h *HookedState) SaveOffset(o uint64) error {
	h.call("saveoffset", "", "pre")
	e := h.Inner.SaveOffset(o)
	h.call("saveoffset", "", "post")
	return e
}
func (h *HookedState) LoadOffset() (uint64, error) {
	h.call("loadoffset", "", "pre")
	v, e := h.Inner.LoadOffset()
	h.call("loadoffset", "", "post")
	return v, e
}

// ---------------------------------------------------------------------------------------------
// Board: in-memory append-only log with per-reader handles.

type Board struct {
	mu  sync.Mutex
	log []storage.Message
	// Hook is called before/after Send and GetMessages (scheduling / crash points)
	Hook func(op, phase string)
}

func NewBoard() *Board { return &Board{} }

func (b *Board) Len() int {
	b.mu.Lock()
	defer b.mu.Unlock()
	return len(b.log)
}

func (b *Board) Log() []storage.Message {
	b.mu.Lock()
	defer b.mu.Unlock()
	out := make([]storage.Message, len(b.log))
	copy(out, b.log)
	return out
}

// Truncate cuts the log back to n entries (used when restoring a world snapshot).
func (b *Board) Truncate(n int) {
	b.mu.Lock()
	defer b.mu.Unlock()
	b.log = b.log[:n]
}

// SetLog replaces the log.
func (b *Board) SetLog(l []storage.Message) {
	b.mu.Lock()
	defer b.mu.Unlock()
	b.log = append([]storage.Message(nil), l...)
}

func (b *Board) appendMsg(m storage.Message) storage.Message {
	b.mu.Lock()
	defer b.mu.Unlock()
	m.Offset = uint64(len(b.log))
	// deterministic id of the same shape as a uuid (36 chars)
	m.ID = fmt.Sprintf("00000000-0000-4000-8000-%012d", len(b.log))
	m.Data = cp(m.Data)
	m.Signature = cp(m.Signature)
	b.log = append(b.log, m)
	return m
}

// Post appends a message from outside any node (harness/adversary).
func (b *Board) Post(m storage.Message) storage.Message { return b.appendMsg(m) }

// Handle is one reader/writer's view (what storage.Storage is to a node).
type Handle struct {
	b *Board
	// Horizon limits how far GetMessages reads (-1: no limit). It models "the board as it was
	// when the poll happened" and lets the harness make a tick consume exactly k messages.
	horizon   int
	idIgnore  map[string]struct{}
	offIgnore map[uint64]struct{}
	mu        sync.Mutex
	getCalls  int
	waiters   []chan struct{}
	Sent      int
	// failSendIn > 0: the failSendIn-th Send CALL from now fails before it appends anything (a
	// board that cannot be reached for one request); see ArmSendFailure.
	failSendIn int
	// Hook is called around every appended message of Send and around GetMessages of THIS
	// handle (crash points / scheduling points of one node).
	Hook func(op, phase string)
}

var _ storage.Storage = (*Handle)(nil)

func (b *Board) NewHandle() *Handle {
	return &Handle{b: b, horizon: -1, idIgnore: map[string]struct{}{}, offIgnore: map[uint64]struct{}{}}
}

// MaxBoardLine mirrors storage/file_storage maxLineSize (id and offset are assigned on append: 64 bytes of slack).
const MaxBoardLine = 1024 * 1024

// ArmSendFailure makes the k-th Send call from now fail as a whole (k <= 0: disarm).
func (h *Handle) ArmSendFailure(k int) { h.mu.Lock(); h.failSendIn = k; h.mu.Unlock() }

func (h *Handle) Send(msgs ...storage.Message) error {
	h.mu.Lock()
	fail := false
	if h.failSendIn > 0 {
		h.failSendIn--
		fail = h.failSendIn == 0
	}
	h.mu.Unlock()
	if fail {
		return fmt.Errorf("the board cannot be reached (injected by the harness)")
	}
	// the board substitutes have the line limit of the file board (1 MiB, newline included):
	// boards are finite, the Kafka one too. Like the file board, a call is refused as a whole
	// before anything is appended when one of its messages cannot go on the board.
	for _, m := range msgs {
		if bz, err := json.Marshal(m); err == nil && len(bz)+64 > MaxBoardLine {
			return fmt.Errorf("message is too long for the board: about %d bytes, at most %d", len(bz)+64, MaxBoardLine)
		}
	}
	for i, m := range msgs {
		if h.b.Hook != nil {
			h.b.Hook("send", "pre")
		}
		if h.Hook != nil {
			h.Hook("send", "pre")
		}
		msgs[i] = h.b.appendMsg(m)
		h.Sent++
		if h.b.Hook != nil {
			h.b.Hook("send", "post")
		}
		if h.Hook != nil {
			h.Hook("send", "post")
		}
	}
	return nil
}

func (h *Handle) GetMessages(offset uint64) ([]storage.Message, error) {
	if h.b.Hook != nil {
		h.b.Hook("getmessages", "pre")
	}
	if h.Hook != nil {
		h.Hook("getmessages", "pre")
	}
	h.b.mu.Lock()
	end := len(h.b.log)
	h.mu.Lock()
	hz := h.horizon
	h.mu.Unlock()
	if hz >= 0 && hz < end {
		end = hz
	}
	var out []storage.Message
	for i := int(offset); i < end; i++ {
		m := h.b.log[i]
		if _, ok := h.idIgnore[m.ID]; ok {
			continue
		}
		if _, ok := h.offIgnore[m.Offset]; ok {
			continue
		}
		m.Data = cp(m.Data)
		m.Signature = cp(m.Signature)
		out = append(out, m)
	}
	h.b.mu.Unlock()
	h.mu.Lock()
	h.getCalls++
	ws := h.waiters
	h.waiters = nil
	h.mu.Unlock()
	for _, w := range ws {
		close(w)
	}
	return out, nil
}

// SetHorizon limits how far GetMessages reads (-1: no limit).
func (h *Handle) SetHorizon(n int) { h.mu.Lock(); h.horizon = n; h.mu.Unlock() }

// GetCalls returns how many GetMessages calls completed their read of the log.
func (h *Handle) GetCalls() int {
	h.mu.Lock()
	defer h.mu.Unlock()
	return h.getCalls
}

// WaitGetCalls blocks until at least n GetMessages calls were made.
func (h *Handle) WaitGetCalls(n int) {
	for {
		h.mu.Lock()
		if h.getCalls >= n {
			h.mu.Unlock()
			return
		}
		w := make(chan struct{})
		h.waiters = append(h.waiters, w)
		h.mu.Unlock()
		<-w
	}
}

// WaitGetCallsOr is WaitGetCalls that gives up (false) when abort is closed.
func (h *Handle) WaitGetCallsOr(n int, abort <-chan struct{}) bool {
	for {
		h.mu.Lock()
		if h.getCalls >= n {
			h.mu.Unlock()
			return true
		}
		w := make(chan struct{})
		h.waiters = append(h.waiters, w)
		h.mu.Unlock()
		select {
		case <-w:
		case <-abort:
			return false
		}
	}
}

func (h *Handle) Close() error { return nil }

func (h *Handle) IgnoreMessages(messages []string, useOffset bool) error {
	for _, msg := range messages {
		if useOffset {
			o, err := strconv.ParseUint(msg, 10, 64)
			if err != nil {
				return fmt.Errorf("failed to parse message offset:  %w", err)
			}
			h.offIgnore[o] = struct{}{}
			continue
		}
		h.idIgnore[msg] = struct{}{}
	}
	return nil
}

func (h *Handle) UnignoreMessages() {
	h.idIgnore = map[string]struct{}{}
	h.offIgnore = map[uint64]struct{}{}
}
