package world

import (
	"strings"
	"sync"

	"github.com/lidofinance/dc4bc/verifshim/vleveldb"
)

// DB write hooks are global in the shim; the harness dispatches them by database path so that
// several worlds can run in one process.
var (
	dbHookMu sync.Mutex
	dbHooks  = map[string]func(op, phase string, key []byte){}
)

func init() {
	vleveldb.SetHook(func(path, op, phase string, key []byte) {
		dbHookMu.Lock()
		var f func(op, phase string, key []byte)
		for p, h := range dbHooks {
			if path == p || strings.HasPrefix(path, p+"_") {
				f = h
			}
		}
		dbHookMu.Unlock()
		if f != nil {
			f(op, phase, key)
		}
	})
}

// RegisterDBHook installs a hook for every write to the LevelDB at path (and databases created
// by a state reset next to it, "<path>_<ts>").
func RegisterDBHook(path string, f func(op, phase string, key []byte)) {
	dbHookMu.Lock()
	dbHooks[path] = f
	dbHookMu.Unlock()
}

func UnregisterDBHook(path string) {
	dbHookMu.Lock()
	delete(dbHooks, path)
	dbHookMu.Unlock()
}
