package world

import (
	"context"
	"crypto/ed25519"
	"crypto/sha256"
	"encoding/json"
	"fmt"
	"sort"
	"sync"
	"time"

	"github.com/lidofinance/dc4bc/client/api/dto"
	"github.com/lidofinance/dc4bc/client/config"
	"github.com/lidofinance/dc4bc/client/modules/keystore"
	"github.com/lidofinance/dc4bc/client/modules/state"
	oprepo "github.com/lidofinance/dc4bc/client/repositories/operation"
	sigrepo "github.com/lidofinance/dc4bc/client/repositories/signature"
	"github.com/lidofinance/dc4bc/client/services"
	"github.com/lidofinance/dc4bc/client/services/fsmservice"
	"github.com/lidofinance/dc4bc/client/services/node"
	"github.com/lidofinance/dc4bc/client/services/operation"
	"github.com/lidofinance/dc4bc/client/services/signature"
	"github.com/lidofinance/dc4bc/client/types"
	"github.com/lidofinance/dc4bc/fsm/state_machines"
	"github.com/lidofinance/dc4bc/storage"
	"github.com/lidofinance/dc4bc/verifshim/vtime"
)

// T0 is the constant virtual time of the harness (well inside every protocol deadline).
var T0 = time.Date(2023, 1, 2, 3, 4, 5, 0, time.UTC)

var clockMu sync.Mutex
var clockNow = T0

// SetClock sets the virtual clock (shared by every node of the process).
func SetClock(t time.Time) { clockMu.Lock(); clockNow = t; clockMu.Unlock() }

// Clock returns the virtual clock.
func Clock() time.Time { clockMu.Lock(); defer clockMu.Unlock(); return clockNow }

func init() {
	vtime.SetNow(func() time.Time { clockMu.Lock(); defer clockMu.Unlock(); return clockNow })
}

// Logger keeps the node's log lines (the property statements name some of them as observables).
type Logger struct {
	mu    sync.Mutex
	Name  string
	Lines []string
	Keep  bool
}

func (l *Logger) Log(format string, args ...interface{}) {
	if !l.Keep {
		return
	}
	l.mu.Lock()
	l.Lines = append(l.Lines, fmt.Sprintf(format, args...))
	l.mu.Unlock()
}

func (l *Logger) Take() []string {
	l.mu.Lock()
	defer l.mu.Unlock()
	out := l.Lines
	l.Lines = nil
	return out
}

// MemKeyStore implements keystore.KeyStore.
type MemKeyStore struct {
	mu   sync.Mutex
	keys map[string]*keystore.KeyPair
}

func NewMemKeyStore() *MemKeyStore { return &MemKeyStore{keys: map[string]*keystore.KeyPair{}} }
func (k *MemKeyStore) PutKeys(username string, kp *keystore.KeyPair) error {
	k.mu.Lock()
	defer k.mu.Unlock()
	k.keys[username] = kp
	return nil
}
func (k *MemKeyStore) LoadKeys(userName, password string) (*keystore.KeyPair, error) {
	k.mu.Lock()
	defer k.mu.Unlock()
	kp, ok := k.keys[userName]
	if !ok {
		return nil, fmt.Errorf("no key pair found for user %s", userName)
	}
	return kp, nil
}

// DetKeyPair derives a communication key pair from a label.
func DetKeyPair(label string) *keystore.KeyPair {
	seed := sha256.Sum256([]byte("verif-comm-key:" + label))
	priv := ed25519.NewKeyFromSeed(seed[:])
	return &keystore.KeyPair{Pub: priv.Public().(ed25519.PublicKey), Priv: priv}
}

// Node is one real hot node over harness-owned state and board handle.
type Node struct {
	Name    string
	Svc     node.NodeService
	Base    *node.BaseNodeService
	State   state.State // what the services were wired with (possibly hooked)
	Mem     *MemState   // nil when running over a real LevelDBState
	Handle  *Handle
	FSM     fsmservice.FSMService
	Ops     operation.OperationService
	Sigs    signature.SignatureService
	KeyPair *keystore.KeyPair
	Log     *Logger
	SP      *services.ServiceProvider
	Cfg     *config.Config

	pollMu   sync.Mutex
	tick     chan time.Time
	cancel   context.CancelFunc
	pollErr  chan error
	pollDead chan struct{} // closed when the Poll loop ended (returned or crashed)
	// Crashed holds the injected-crash sentinel if the Poll loop died from one
	Crashed interface{}
}

// CrashSentinel is panicked by harness hooks to simulate the death of the node process.
type CrashSentinel struct{ Point string }

// tickerMu serialises Poll start-up so that the global ticker hook can hand each Poll loop its
// own harness-fed channel.
var tickerMu sync.Mutex

// NewNodeOver wires a node exactly like services.CreateServiceProviderWithCfg /
// client/flow_test.go:initNodes do, but over the given State and board handle.
func NewNodeOver(name string, kp *keystore.KeyPair, st state.State, h *Handle) (*Node, error) {
	ks := NewMemKeyStore()
	_ = ks.PutKeys(name, kp)
	lg := &Logger{Name: name}
	cfg := &config.Config{
		Username:           name,
		HttpApiConfig:      &config.HttpApiConfig{ListenAddr: "localhost:0"},
		KafkaStorageConfig: &config.KafkaStorageConfig{Topic: Topic},
	}
	sigRepo := sigrepo.NewSignatureRepo(st)
	opRepo, err := oprepo.NewOperationRepo(st, Topic)
	if err != nil {
		return nil, fmt.Errorf("failed to init operation repo: %w", err)
	}
	sp := &services.ServiceProvider{}
	sp.SetLogger(lg)
	sp.SetState(st)
	sp.SetKeyStore(ks)
	sp.SetStorage(h)
	fsmSvc := fsmservice.NewFSMService(st, h, Topic)
	sp.SetFSMService(fsmSvc)
	opSvc := operation.NewOperationService(opRepo)
	sigSvc := signature.NewSignatureService(sigRepo)
	sp.SetOperationService(opSvc)
	sp.SetSignatureService(sigSvc)
	ctx, cancel := context.WithCancel(context.Background())
	svc, err := node.NewNode(ctx, cfg, sp)
	if err != nil {
		cancel()
		return nil, err
	}
	n := &Node{Name: name, Svc: svc, State: st, Handle: h, FSM: fsmSvc, Ops: opSvc, Sigs: sigSvc,
		KeyPair: kp, Log: lg, SP: sp, Cfg: cfg, cancel: cancel}
	n.Base, _ = svc.(*node.BaseNodeService)
	if ms, ok := st.(*MemState); ok {
		n.Mem = ms
	}
	return n, nil
}

// NewNodeOverStorage wires a node over an arbitrary State and an arbitrary storage.Storage (the
// real FileStorage in the conformance check). Such a node is ticked with TickPlain.
func NewNodeOverStorage(name string, kp *keystore.KeyPair, st state.State, stg storage.Storage) (*Node, error) {
	n, err := NewNodeOver(name, kp, st, NewBoard().NewHandle())
	if err != nil {
		return nil, err
	}
	n.cancel()
	// rebuild with the foreign storage
	sp := n.SP
	sp.SetStorage(stg)
	sp.SetFSMService(fsmservice.NewFSMService(st, stg, Topic))
	ctx, cancel := context.WithCancel(context.Background())
	svc, err := node.NewNode(ctx, n.Cfg, sp)
	if err != nil {
		cancel()
		return nil, err
	}
	n.Svc, n.cancel, n.FSM, n.Handle = svc, cancel, sp.GetFSMService(), nil
	n.Base, _ = svc.(*node.BaseNodeService)
	return n, nil
}

// TickPlain makes the real Poll loop perform one tick over whatever the storage returns and a
// second (barrier) tick; for nodes whose storage is not the harness board.
func (n *Node) TickPlain() error {
	n.StartPoll()
	for i := 0; i < 2; i++ {
		select {
		case n.tick <- T0:
		case err := <-n.pollErr:
			n.pollErr <- err
			return fmt.Errorf("poll loop ended: %v", err)
		}
	}
	// a third tick can only be taken after the second one was handled completely
	select {
	case n.tick <- T0:
	case err := <-n.pollErr:
		n.pollErr <- err
		return fmt.Errorf("poll loop ended: %v", err)
	}
	return nil
}

// NewMemNode builds a node over a fresh MemState.
func NewMemNode(name string, b *Board) (*Node, error) {
	return NewNodeOver(name, DetKeyPair(name), NewMemState(Topic), b.NewHandle())
}

// StartPoll launches the REAL Poll() loop in a goroutine, fed by a harness-owned ticker.
func (n *Node) StartPoll() {
	n.pollMu.Lock()
	defer n.pollMu.Unlock()
	if n.tick != nil {
		return
	}
	tickerMu.Lock()
	ch := make(chan time.Time)
	got := make(chan struct{})
	vtime.SetTickerHook(func(d time.Duration) *vtime.Ticker {
		close(got)
		return vtime.NewHarnessTicker(ch, nil)
	})
	n.pollErr = make(chan error, 1)
	n.pollDead = make(chan struct{})
	dead := n.pollDead
	go func() {
		defer close(dead)
		defer func() {
			if r := recover(); r != nil {
				if cs, ok := r.(CrashSentinel); ok {
					n.Crashed = cs
					n.pollErr <- fmt.Errorf("node process crashed at %s", cs.Point)
					return
				}
				panic(r)
			}
		}()
		n.pollErr <- n.Svc.Poll()
	}()
	<-got
	vtime.SetTickerHook(nil)
	tickerMu.Unlock()
	n.tick = ch
}

// Stop cancels the node's context (ends Poll).
func (n *Node) Stop() {
	n.pollMu.Lock()
	defer n.pollMu.Unlock()
	n.cancel()
	if n.tick != nil {
		select {
		case <-n.pollErr:
		case <-time.After(5 * time.Second):
		}
		n.tick = nil
	}
}

// Tick makes the real Poll loop perform one tick that sees the board up to `horizon`
// (-1 = everything) and returns when that tick has been handled completely.
// It returns an error if the Poll loop ended.
func (n *Node) Tick(horizon int) error {
	n.StartPoll()
	n.Handle.SetHorizon(horizon)
	before := n.Handle.GetCalls()
	select {
	case n.tick <- T0:
	case err := <-n.pollErr:
		n.pollErr <- err
		return fmt.Errorf("poll loop ended: %v", err)
	}
	if !n.Handle.WaitGetCallsOr(before+1, n.pollDead) {
		return fmt.Errorf("poll loop ended during the tick")
	}
	// Barrier: a second tick is only received after the first one was handled completely. The
	// barrier tick must see nothing (horizon 0), and once its GetMessages has read the log the
	// loop touches nothing else.
	n.Handle.SetHorizon(0)
	select {
	case n.tick <- T0:
		// the barrier tick was taken: the first tick is complete; it must see nothing
	case err := <-n.pollErr:
		n.pollErr <- err
		return fmt.Errorf("poll loop ended: %v", err)
	}
	if !n.Handle.WaitGetCallsOr(before+2, n.pollDead) {
		return fmt.Errorf("poll loop ended during the barrier tick")
	}
	n.Handle.SetHorizon(-1)
	return nil
}

// Offset returns the saved offset.
func (n *Node) Offset() uint64 {
	o, _ := n.State.LoadOffset()
	return o
}

// PollOne consumes exactly the next message (if any) through the real Poll loop.
func (n *Node) PollOne(b *Board) error {
	off := int(n.Offset())
	if off >= b.Len() {
		return nil
	}
	return n.Tick(off + 1)
}

// Drain consumes everything on the board, one tick.
func (n *Node) Drain() error { return n.Tick(-1) }

// PendingOps returns pending operations sorted by (CreatedAt, ID) for determinism.
func (n *Node) PendingOps() []*types.Operation {
	ops, err := n.Ops.GetOperations()
	if err != nil {
		return nil
	}
	var out []*types.Operation
	for _, o := range ops {
		out = append(out, o)
	}
	sort.Slice(out, func(i, j int) bool { return out[i].ID < out[j].ID })
	return out
}

// Dump returns the FSM dump of a round (nil if absent / not restorable).
func (n *Node) Dump(round string) *state_machines.FSMDump {
	d, err := n.FSM.GetFSMDump(&dto.DkgIdDTO{DkgID: round})
	if err != nil {
		return nil
	}
	return d
}

// RoundState returns the FSM state name of the round ("" if absent).
func (n *Node) RoundState(round string) string {
	d := n.Dump(round)
	if d == nil {
		return ""
	}
	return string(d.State)
}

// SubmitResult feeds a result operation through the node API method used by the HTTP handler.
func (n *Node) SubmitResult(res *types.Operation) error {
	return n.Svc.ProcessOperation(&dto.OperationDTO{
		ID: res.ID, Type: string(res.Type), Payload: res.Payload, ResultMsgs: res.ResultMsgs,
		CreatedAt: res.CreatedAt, DkgID: res.DKGIdentifier, To: res.To, Event: res.Event, ExtraData: res.ExtraData,
	})
}

// SignedMessage builds a board message signed with the given key.
func SignedMessage(round, event string, data []byte, sender string, priv ed25519.PrivateKey, recipient string) storage.Message {
	m := storage.Message{DkgRoundID: round, Event: event, Data: data, SenderAddr: sender, RecipientAddr: recipient}
	if priv != nil {
		m.Signature = ed25519.Sign(priv, m.Bytes())
	}
	return m
}

func MustJSON(v interface{}) []byte {
	b, err := json.Marshal(v)
	if err != nil {
		panic(err)
	}
	return b
}
