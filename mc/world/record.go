package world

import (
	"fmt"

	"github.com/lidofinance/dc4bc/fsm/types/requests"
	"github.com/lidofinance/dc4bc/storage"
)

// Recording is a complete honest ceremony executed on real code under the canonical schedule
// (every node polls one message at a time until drained, then every operator answers), with
// every node's state store captured after each consumed message.
type Recording struct {
	W     *World
	Round string
	Log   []storage.Message
	// Snaps[node][k] = node's store right after it consumed k messages (and performed the
	// API submissions the canonical schedule had reached by then). Snaps[node][0] is the
	// fresh node.
	Snaps [][]Snapshot
	// PreSnaps[node][k] = the same, captured before the operator answered the operations pending
	// at that point (so operations created by message k are still pending in it)
	PreSnaps [][]Snapshot
	// OpsSeen[node] = every request operation the node offered, in order of appearance
	DKGEnd int // log length when the key generation completed
}

type BatchSpec struct {
	ID       string
	Proposer int
	Tasks    []requests.SigningTask
}

func (w *World) stepwiseDrain(rec *Recording) error {
	for {
		progressed := false
		for i, n := range w.Nodes {
			for int(n.Offset()) < w.Board.Len() {
				if err := n.PollOne(w.Board); err != nil {
					return err
				}
				off := int(n.Offset())
				for len(rec.Snaps[i]) <= off {
					rec.Snaps[i] = append(rec.Snaps[i], nil)
				}
				rec.Snaps[i][off] = n.Mem.Snapshot()
				for len(rec.PreSnaps[i]) <= off {
					rec.PreSnaps[i] = append(rec.PreSnaps[i], nil)
				}
				rec.PreSnaps[i][off] = rec.Snaps[i][off]
				progressed = true
			}
		}
		if !progressed {
			return nil
		}
	}
}

func (w *World) stepwiseQuiesce(rec *Recording) error {
	for iter := 0; iter < 200; iter++ {
		if err := w.stepwiseDrain(rec); err != nil {
			return err
		}
		c, err := w.OperateAll()
		if err != nil {
			return err
		}
		// submissions change the stores without consuming a message: refresh the last snapshot
		for i, n := range w.Nodes {
			rec.Snaps[i][int(n.Offset())] = n.Mem.Snapshot()
		}
		if c == 0 && w.allDrained() {
			return nil
		}
	}
	return fmt.Errorf("no quiescence")
}

// SecondRound runs another complete key generation (different round id, same participants and
// machines) plus one signing batch on the recorded world and appends it to the recording.
func (rec *Recording) SecondRound(t int, batch BatchSpec) (string, error) {
	w := rec.W
	idx := make([]int, w.N)
	for i := range idx {
		idx[i] = i
	}
	round, err := w.StartDKGOver(t, 0, idx, func(r *requests.SignatureProposalParticipantsListRequest) { r.CreatedAt = T0.Add(1000) })
	if err != nil {
		return "", err
	}
	if err := w.stepwiseQuiesce(rec); err != nil {
		return "", err
	}
	for i, nd := range w.Nodes {
		if st := nd.RoundState(round); st != "stage_signing_idle" {
			return "", fmt.Errorf("node %d ended the second key generation in %q", i, st)
		}
	}
	w.Propose(batch.Proposer, round, batch.ID, batch.Tasks)
	if err := w.stepwiseQuiesce(rec); err != nil {
		return "", err
	}
	rec.Log = w.Board.Log()
	return round, nil
}

// RecordCeremony runs DKG(n,t) and the given signing batches and records everything.
func RecordCeremony(n, t int, batches []BatchSpec) (*Recording, error) {
	w, err := NewWorld(n)
	if err != nil {
		return nil, err
	}
	rec := &Recording{W: w, Snaps: make([][]Snapshot, n), PreSnaps: make([][]Snapshot, n)}
	for i, nd := range w.Nodes {
		rec.Snaps[i] = []Snapshot{nd.Mem.Snapshot()}
		rec.PreSnaps[i] = []Snapshot{nd.Mem.Snapshot()}
	}
	round, err := w.StartDKG(t, n-1)
	if err != nil {
		return nil, err
	}
	rec.Round = round
	if err := w.stepwiseQuiesce(rec); err != nil {
		return nil, err
	}
	for i, nd := range w.Nodes {
		if st := nd.RoundState(round); st != "stage_signing_idle" {
			return nil, fmt.Errorf("node %d ended the key generation in %q", i, st)
		}
	}
	rec.DKGEnd = w.Board.Len()
	for _, b := range batches {
		w.Propose(b.Proposer, round, b.ID, b.Tasks)
		if err := w.stepwiseQuiesce(rec); err != nil {
			return nil, err
		}
	}
	rec.Log = w.Board.Log()
	for i := range rec.Snaps {
		for k, s := range rec.Snaps[i] {
			if s == nil {
				return nil, fmt.Errorf("no snapshot for node %d at offset %d", i, k)
			}
		}
	}
	return rec, nil
}
