module verif/mc

go 1.19

require (
	github.com/corestario/kyber v1.6.0
	github.com/labstack/echo/v4 v4.9.0
	github.com/lidofinance/dc4bc v0.0.0
	github.com/prysmaticlabs/prysm/v3 v3.2.1
	github.com/syndtr/goleveldb v1.0.1-0.20220721030215-126854af5e6d
	github.com/tyler-smith/go-bip39 v1.1.0
	lukechampine.com/frand v1.4.2
)

require (
	github.com/aead/chacha20 v0.0.0-20180709150244-8b13a72661da // indirect
	github.com/censync/go-dto v1.0.6 // indirect
	github.com/censync/go-validator v1.0.0 // indirect
	github.com/ethereum/go-ethereum v1.10.25 // indirect
	github.com/ferranbt/fastssz v0.1.1 // indirect
	github.com/golang/snappy v0.0.4 // indirect
	github.com/google/go-cmp v0.5.9 // indirect
	github.com/google/uuid v1.3.0 // indirect
	github.com/hashicorp/golang-lru v0.5.5-0.20210104140557-80c98217689d // indirect
	github.com/herumi/bls-eth-go-binary v0.0.0-20210917013441-d37c07cfda4e // indirect
	github.com/juju/fslock v0.0.0-20160525022230-4d5c94c67b4b // indirect
	github.com/kilic/bls12-381 v0.0.0-20200820230200-6b2c19996391 // indirect
	github.com/klauspost/compress v1.15.12 // indirect
	github.com/klauspost/cpuid/v2 v2.2.1 // indirect
	github.com/labstack/gommon v0.3.1 // indirect
	github.com/mattn/go-colorable v0.1.11 // indirect
	github.com/mattn/go-isatty v0.0.16 // indirect
	github.com/minio/sha256-simd v1.0.0 // indirect
	github.com/mitchellh/mapstructure v1.4.2 // indirect
	github.com/mohae/deepcopy v0.0.0-20170929034955-c48cc78d4826 // indirect
	github.com/pierrec/lz4 v2.6.0+incompatible // indirect
	github.com/pkg/errors v0.9.1 // indirect
	github.com/prysmaticlabs/fastssz v0.0.0-20220628121656-93dfe28febab // indirect
	github.com/prysmaticlabs/gohashtree v0.0.2-alpha // indirect
	github.com/segmentio/kafka-go v0.4.23 // indirect
	github.com/sirupsen/logrus v1.8.1 // indirect
	github.com/supranational/blst v0.3.10 // indirect
	github.com/thomaso-mirodin/intmath v0.0.0-20160323211736-5dc6d854e46e // indirect
	github.com/valyala/bytebufferpool v1.0.0 // indirect
	github.com/valyala/fasttemplate v1.2.1 // indirect
	go.dedis.ch/fixbuf v1.0.3 // indirect
	go.dedis.ch/protobuf v1.0.11 // indirect
	golang.org/x/crypto v0.3.0 // indirect
	golang.org/x/net v0.3.0 // indirect
	golang.org/x/sys v0.3.0 // indirect
	golang.org/x/text v0.5.0 // indirect
	gopkg.in/yaml.v2 v2.4.0 // indirect
)

replace github.com/lidofinance/dc4bc => /repo
