// Package checks holds one exhaustive exploration per property.
package checks

import (
	"verif/mc/kit"
	"verif/mc/world"
)

// Registry maps a property id (or helper command) to its check.
var Registry = map[string]func(tier string, args []string) int{}

func newRun(id, tier, level string) *kit.Run {
	return kit.NewRun(id, tier, level, world.RealStdout)
}

// finish cleans scratch data and ends the process through kit.
func finish(r *kit.Run) int {
	world.Cleanup()
	r.Finish()
	return 0
}
