package checks

import (
	"bytes"
	"crypto/ed25519"
	"encoding/json"
	"errors"
	"fmt"
	"net/http"
	"net/http/httptest"
	"os"
	"path/filepath"
	"sort"
	"strings"
	"sync"

	"github.com/labstack/echo/v4"

	"github.com/lidofinance/dc4bc/client/api/dto"
	cs "github.com/lidofinance/dc4bc/client/api/http_api/context_service"
	"github.com/lidofinance/dc4bc/client/api/http_api/router"
	"github.com/lidofinance/dc4bc/client/types"
	"github.com/lidofinance/dc4bc/fsm/fsm"
	spf "github.com/lidofinance/dc4bc/fsm/state_machines/signature_proposal_fsm"
	sif "github.com/lidofinance/dc4bc/fsm/state_machines/signing_proposal_fsm"
	"github.com/lidofinance/dc4bc/fsm/types/requests"
	"github.com/lidofinance/dc4bc/storage"

	"verif/mc/kit"
	"verif/mc/world"
	"verif/mc/xsearch"
)

func init() { Registry["C15"] = c15 }

// ref15 is the reference pool model (DESIGN A.4).
type ref15 struct {
	Retired []string
}

func (m *ref15) has(id string) bool {
	for _, x := range m.Retired {
		if x == id {
			return true
		}
	}
	return false
}
func (m *ref15) key() string { return strings.Join(m.Retired, ",") }

type st15 struct {
	Snap string
	Ref  *ref15
}

type in15 struct {
	Label   string
	Kind    string // submit | approve | deliver
	Res     *types.Operation
	OpID    string
	Msg     storage.Message
	Variant string
	// FailSendCall > 0: the board refuses the node's FailSendCall-th Send call of this input
	FailSendCall int
	// Leaf: judged, but not continued from (results that carry about a megabyte)
	Leaf bool
}

func c15(tier string, args []string) int {
	r := newRun("C15", tier, "model_checking")
	depth := 6
	if tier == "thorough" {
		depth = 10
	}
	r.Assume = []string{
		"reference pool model of DESIGN A.4: a submission posts iff its id is pending and type and payload equal the stored ones; what is posted are the submission's result messages with sender and signature rewritten; afterwards the id is retired for good",
		"histories: every sequence of submissions (genuine and single-field-edited results, request-only, unknown id), approvals and board deliveries (next genuine message, replays of earlier ones, batch-cancelling error reports) up to length " + fmt.Sprint(depth) + " from every recorded state with a pending operation",
	}
	rec := getRecording(r, 2, 2) // n=t=2: one error report cancels a signing batch
	v := 0
	ops := machineOps(r, rec, v)
	// genuine results by operation id
	results := map[string]*types.Operation{}
	for k := range ops {
		a, err := freshMachineAt(rec, v, ops, k)
		if err != nil {
			r.Infra("machine: %v", err)
		}
		o := ops[k]
		res, err := a.Process(&o)
		a.Close()
		os.RemoveAll(a.Dir)
		if err != nil {
			r.Infra("genuine result: %v", err)
		}
		results[o.ID] = res
	}
	workers := 16
	labs := make([]*Lab, workers)
	for i := range labs {
		l, err := NewLabFor(rec.W, v)
		if err != nil {
			r.Infra("lab: %v", err)
		}
		labs[i] = l
	}
	store := newSnapStore()
	nodeName := rec.W.Nodes[v].Name
	nodePub := rec.W.Nodes[v].KeyPair.Pub
	var mu sync.Mutex
	totS, totT := 0, 0
	outcomes := map[string]int{}
	sampled := 0

	// base states: every recorded state (before the operator answered) with a pending operation
	seenBase := map[string]bool{}
	for k, sn := range rec.PreSnaps[v] {
		pool, del := sn.RawOps()
		pend := 0
		for id := range pool {
			if _, d := del[id]; !d {
				pend++
			}
		}
		if pend == 0 || seenBase[sn.Hash()] {
			continue
		}
		seenBase[sn.Hash()] = true
		if r.TimeUp() {
			break
		}
		baseK := k
		init := &xsearch.St{Data: &st15{Snap: store.put(sn), Ref: &ref15{}}}
		init.Key = init.Data.(*st15).Snap + "|"
		next := func(w int, s *xsearch.St) ([]*xsearch.St, error) {
			if s.Depth >= depth {
				return nil, nil
			}
			lab := labs[w]
			cur := s.Data.(*st15)
			snap := store.get(cur.Snap)
			lab.Node.Mem.Restore(snap)
			pendingNow, err := lab.Node.Ops.GetOperations()
			if err != nil {
				return nil, err
			}
			var inputs []in15
			// --- submissions for every operation we hold a result for (pending or not)
			ids := make([]string, 0, len(results))
			for id := range results {
				ids = append(ids, id)
			}
			sort.Strings(ids)
			for _, id := range ids {
				_, isPending := pendingNow[id]
				if !isPending && !cur.Ref.has(id) {
					continue // an operation this state has never seen
				}
				for _, sv := range submissionVariants(results[id]) {
					if !isPending && sv.Variant != "genuine" {
						continue
					}
					inputs = append(inputs, sv)
				}
			}
			for id, o := range pendingNow {
				if fsm.State(o.Type) == spf.StateAwaitParticipantsConfirmations {
					inputs = append(inputs, in15{Label: "approve(" + id[:6] + ")", Kind: "approve", OpID: id})
				}
			}
			inputs = append(inputs, in15{Label: "approve(unknown id)", Kind: "approve", OpID: strings.Repeat("0", 32)})
			unknown := cloneOp15(firstResult(results))
			unknown.ID = strings.Repeat("f", 32)
			inputs = append(inputs, in15{Label: "submit(unknown id)", Kind: "submit", Res: unknown, Variant: "unknown-id"})
			// --- board deliveries
			off := baseK + countDelivered(s)
			if off < len(rec.Log) {
				inputs = append(inputs, in15{Label: fmt.Sprintf("deliver(next %s)", rec.Log[off].Event), Kind: "deliver", Msg: rec.Log[off], Variant: "next"})
			}
			seenEv := map[string]bool{}
			for j := off - 1; j >= 0 && len(seenEv) < 3; j-- {
				if !seenEv[rec.Log[j].Event] && addressed(rec, v, rec.Log[j]) {
					seenEv[rec.Log[j].Event] = true
					inputs = append(inputs, in15{Label: fmt.Sprintf("deliver(replay of %d %s)", j, rec.Log[j].Event), Kind: "deliver", Msg: rec.Log[j], Variant: "replay"})
				}
			}
			if snap.RoundState(rec.Round) == string(sif.StateSigningAwaitPartialSigns) {
				er := requests.SignatureProposalConfirmationErrorRequest{ParticipantId: 1, Error: requests.NewFSMError(errors.New("cannot sign")), CreatedAt: world.T0}
				m := world.SignedMessage(rec.Round, string(sif.EventSigningPartialSignError), world.MustJSON(er), rec.W.Nodes[1].Name, rec.W.Nodes[1].KeyPair.Priv, "")
				inputs = append(inputs, in15{Label: "deliver(error report of participant 1)", Kind: "deliver", Msg: m, Variant: "cancel"})
			}

			var out []*xsearch.St
			for _, in := range inputs {
				lab.Node.Mem.Restore(snap)
				lab.Board.SetLog(nil)
				trace := func() interface{} {
					return map[string]interface{}{"base_offset": baseK, "history": append(s.Trace(), in.Label)}
				}
				var err error
				lab.Node.Handle.ArmSendFailure(in.FailSendCall)
				switch in.Kind {
				case "submit":
					err = lab.Node.SubmitResult(cloneOp15(in.Res))
					lab.Node.Handle.ArmSendFailure(0)
				case "approve":
					err = lab.Node.Svc.ApproveParticipation(&dto.OperationIdDTO{OperationID: in.OpID})
				case "deliver":
					err = lab.Node.Svc.ProcessMessage(in.Msg)
				}
				after := lab.Node.Mem.Snapshot()
				appended := lab.Board.Log()
				ref := &ref15{Retired: append([]string(nil), cur.Ref.Retired...)}
				mu.Lock()
				outcomes[fmt.Sprintf("%s|%s|err=%v|posted=%d", in.Kind, in.Variant, err != nil, len(appended))]++
				mu.Unlock()
				switch in.Kind {
				case "submit", "approve":
					id := in.OpID
					var sub *types.Operation
					if in.Kind == "submit" {
						sub = in.Res
						id = sub.ID
					}
					stored, isPending := pendingNow[id]
					acceptable := isPending && !cur.Ref.has(id)
					if in.Kind == "submit" {
						acceptable = acceptable && !sub.Event.IsEmpty() && string(sub.Type) == string(stored.Type) && bytes.Equal(sub.Payload, stored.Payload)
					}
					if !acceptable {
						if len(appended) > 0 {
							r.Violation("C15/posted-for-unacceptable-submission/"+in.Variant, fmt.Sprintf("%s: %d message(s) reached the board although the submission is not an unaltered answer to a pending operation (error: %v)", in.Label, len(appended), err), trace())
						} else if ch := changedProtected(snap, after); len(ch) > 0 {
							r.Violation("C15/refused-submission-changed-state/"+in.Variant, fmt.Sprintf("%s: refused (%v) but changed %v", in.Label, err, ch), trace())
						} else if err == nil {
							r.Violation("C15/unacceptable-submission-accepted/"+in.Variant, fmt.Sprintf("%s was accepted without an error", in.Label), trace())
						}
						continue
					}
					if err == nil && in.FailSendCall == 1 {
						r.Violation("C15/accepted-although-the-board-refused/"+in.Variant, fmt.Sprintf("%s: the board refused the node's first request, the submission was accepted all the same", in.Label), trace())
						continue
					}
					if err != nil {
						if len(appended) > 0 || len(changedProtected(snap, after)) > 0 {
							r.Violation("C15/partial-effect-of-refused-answer/"+in.Variant, fmt.Sprintf("%s: refused (%v) after %d message(s) were posted", in.Label, err, len(appended)), trace())
						}
						continue
					}
					// accepted: what was posted must be exactly the submission's messages
					// (a finished reinitialisation is the one result that posts nothing)
					if in.Kind == "submit" && !(sub.Event == types.OperationProcessed && string(stored.Type) == string(types.ReinitDKG)) {
						if len(appended) != len(sub.ResultMsgs) {
							r.Violation("C15/posted-count-differs/"+in.Variant, fmt.Sprintf("%s: the result carries %d messages, %d were posted", in.Label, len(sub.ResultMsgs), len(appended)), trace())
						}
						for i := 0; i < len(appended) && i < len(sub.ResultMsgs); i++ {
							a, b := appended[i], sub.ResultMsgs[i]
							if !bytes.Equal(a.Data, b.Data) || a.Event != b.Event || a.DkgRoundID != b.DkgRoundID || a.RecipientAddr != b.RecipientAddr {
								r.Violation("C15/posted-message-differs/"+in.Variant, fmt.Sprintf("%s: posted message %d differs from the result's", in.Label, i), trace())
							}
							if a.SenderAddr != nodeName || !ed25519.Verify(nodePub, a.Data, a.Signature) {
								r.Violation("C15/posted-message-not-attributed-to-node/"+in.Variant, fmt.Sprintf("%s: posted message %d is not signed by / attributed to the node", in.Label, i), trace())
							}
						}
					}
					if in.Kind == "approve" && len(appended) != 1 {
						r.Violation("C15/approve-posted-count", fmt.Sprintf("%s posted %d messages", in.Label, len(appended)), trace())
					}
					lab.Node.Mem.Restore(after)
					still, _ := lab.Node.Ops.GetOperations()
					if _, p := still[id]; p {
						r.Violation("C15/answered-operation-still-pending/"+in.Variant, fmt.Sprintf("%s was accepted but the operation is still pending", in.Label), trace())
					}
					ref.Retired = append(ref.Retired, id)
					sort.Strings(ref.Retired)
				case "deliver":
					lab.Node.Mem.Restore(after)
					now, _ := lab.Node.Ops.GetOperations()
					for id := range now {
						if cur.Ref.has(id) {
							r.Violation("C15/retired-operation-pending-again", fmt.Sprintf("after %s the retired operation %s is pending again", in.Label, id[:8]), trace())
						}
					}
					for id := range pendingNow {
						if _, ok := now[id]; !ok {
							r.Violation("C15/pending-operation-lost-by-delivery", fmt.Sprintf("after %s the pending operation %s is gone", in.Label, id[:8]), trace())
						}
					}
				}
				if in.Leaf {
					continue
				}
				c := &st15{Snap: store.put(after), Ref: ref}
				key := c.Snap + "|" + ref.key()
				if in.Kind == "deliver" && in.Variant == "next" {
					key += "|+"
				}
				out = append(out, &xsearch.St{Key: key + fmt.Sprint(countDelivered(s)+b2i(in.Kind == "deliver" && in.Variant == "next")), Data: c, Via: in.Label})
				mu.Lock()
				if sampled < 3 && s.Depth == depth-1 {
					sampled++
					r.Sample(map[string]interface{}{"base_offset": baseK, "history": append(s.Trace(), in.Label)})
				}
				mu.Unlock()
			}
			return out, nil
		}
		res, err := xsearch.BFS(init, xsearch.Opts{Workers: workers, Stop: r.TimeUp}, next)
		if err != nil {
			r.Infra("exploration from offset %d: %v", k, err)
		}
		totS += res.States
		totT += res.Transitions
		if res.Stopped {
			r.Cap("stopped early")
		}
	}
	for _, l := range labs {
		l.Node.Stop()
	}
	roundTrips := c15RoundTrip(r, rec, results)
	roundTrips += c15ResultFiles(r, rec)
	r.Set("states", totS)
	r.Set("transitions", totT)
	r.Set("traces_validated_against_impl", totT)
	r.Set("distinct_outcome_classes", len(outcomes))
	r.Set("json_round_trips", roundTrips)
	// the same answer submitted twice AT THE SAME TIME: every schedule of the two requests within
	// the pre-emption bound, on the real node under the cooperative scheduler; the outcome (pool,
	// retired set, rounds, what was appended to the board) must be that of the two one after the other
	{
		bound := 2
		if tier == "thorough" {
			bound = 3
		}
		rec3 := getRecording(r, 3, 2)
		scheds := 0
		scs := duplicateSubmissionScenarios(r, rec3)
		for _, sc := range scs {
			if r.TimeUp() {
				break
			}
			e, _ := runC14(r, rec3, sc, bound, false)
			scheds += e
		}
		r.Set("concurrent_duplicate_submission_scenarios", len(scs))
		r.Set("concurrent_duplicate_submission_schedules", scheds)
		r.Set("preemption_bound", bound)
	}
	r.Set("rule", "BFS (depth-bounded) over (node store, retired set) from every recorded state with a pending operation; inputs are API submissions (genuine / each field edited / request-only / unknown id / retired id), participation approvals and board deliveries (next, replays, cancelling error report), each executed on the real node; oracle = reference pool model. Second clause: every operation and result through json file round trip and through the real HTTP handler")
	return finish(r)
}

func b2i(b bool) int {
	if b {
		return 1
	}
	return 0
}

// countDelivered counts the "next genuine message" deliveries on the path to s.
func countDelivered(s *xsearch.St) int {
	n := 0
	for x := s; x != nil && x.Parent != nil; x = x.Parent {
		if strings.HasPrefix(x.Via, "deliver(next") {
			n++
		}
	}
	return n
}

func firstResult(m map[string]*types.Operation) *types.Operation {
	ids := make([]string, 0, len(m))
	for id := range m {
		ids = append(ids, id)
	}
	sort.Strings(ids)
	return m[ids[0]]
}

func cloneOp15(o *types.Operation) *types.Operation {
	bz, _ := json.Marshal(o)
	var c types.Operation
	_ = json.Unmarshal(bz, &c)
	return &c
}

// submissionVariants: the genuine result and every single-field edit of it.
func submissionVariants(res *types.Operation) []in15 {
	var out []in15
	add := func(variant string, edit func(o *types.Operation)) {
		c := cloneOp15(res)
		if edit != nil {
			edit(c)
		}
		out = append(out, in15{Label: fmt.Sprintf("submit(%s of %s/%s)", variant, res.ID[:6], shortType(res.Type)), Kind: "submit", Res: c, Variant: variant})
	}
	add("genuine", nil)
	add("id-changed", func(o *types.Operation) { o.ID = o.ID[:len(o.ID)-1] + flipHex(o.ID[len(o.ID)-1]) })
	add("type-changed", func(o *types.Operation) { o.Type = o.Type + "x" })
	add("payload-changed", func(o *types.Operation) {
		o.Payload = append([]byte(nil), o.Payload...)
		o.Payload[len(o.Payload)/2] ^= 1
	})
	add("payload-appended", func(o *types.Operation) { o.Payload = append(append([]byte(nil), o.Payload...), ' ') })
	add("request-only", func(o *types.Operation) { o.Event = ""; o.ResultMsgs = nil })
	add("event-changed", func(o *types.Operation) { o.Event = "event_something_else" })
	// the event that only a finished reinitialisation carries (nothing is posted for it)
	add("event-set-to-processed", func(o *types.Operation) { o.Event = types.OperationProcessed })
	add("round-id-changed", func(o *types.Operation) { o.DKGIdentifier = strings.Repeat("e", 64) })
	add("round-id-changed-and-processed", func(o *types.Operation) {
		o.DKGIdentifier = strings.Repeat("e", 64)
		o.Event = types.OperationProcessed
	})
	add("created-at-changed", func(o *types.Operation) { o.CreatedAt = o.CreatedAt.Add(1) })
	add("to-changed", func(o *types.Operation) { o.To = "someone" })
	add("extra-data-changed", func(o *types.Operation) { o.ExtraData = append([]byte("x"), o.ExtraData...) })
	if len(res.ResultMsgs) > 0 {
		add("result-data-changed", func(o *types.Operation) {
			o.ResultMsgs[0].Data = append([]byte(nil), o.ResultMsgs[0].Data...)
			o.ResultMsgs[0].Data[0] ^= 1
		})
		add("result-sender-changed", func(o *types.Operation) { o.ResultMsgs[0].SenderAddr = "mallory" })
		add("result-signature-set", func(o *types.Operation) { o.ResultMsgs[0].Signature = []byte("forged") })
		add("result-recipient-changed", func(o *types.Operation) { o.ResultMsgs[0].RecipientAddr = "mallory" })
		add("result-dropped", func(o *types.Operation) { o.ResultMsgs = o.ResultMsgs[1:] })
		// results that carry about a megabyte (the deals of a large ceremony do): all of it is
		// posted, or - when the board takes none of it: one message over the board's line limit,
		// or a request the board refuses - nothing is and the operation stays pending
		big := func(o *types.Operation, sizes ...int) {
			for _, n := range sizes {
				m := o.ResultMsgs[0]
				m.Data = bytes.Repeat([]byte{'x'}, n)
				o.ResultMsgs = append(o.ResultMsgs, m)
			}
		}
		leaf := func(fail int) {
			out[len(out)-1].Leaf = true
			out[len(out)-1].FailSendCall = fail
		}
		add("large-result", func(o *types.Operation) { big(o, 300<<10, 300<<10, 300<<10) })
		leaf(0)
		add("large-result-with-a-message-over-the-line-limit", func(o *types.Operation) { big(o, 300<<10, 300<<10, 300<<10, 1100<<10) })
		leaf(0)
		add("large-result-board-refuses-first-request", func(o *types.Operation) { big(o, 300<<10, 300<<10, 300<<10) })
		leaf(1)
		add("large-result-board-refuses-second-request", func(o *types.Operation) { big(o, 300<<10, 300<<10, 300<<10) })
		leaf(2)
		add("large-result-board-refuses-third-request", func(o *types.Operation) { big(o, 300<<10, 300<<10, 300<<10) })
		leaf(3)
	}
	return out
}

func shortType(t types.OperationType) string {
	s := strings.TrimPrefix(string(t), "state_")
	if len(s) > 14 {
		s = s[:14]
	}
	return s
}

func flipHex(c byte) string {
	if c == '0' {
		return "1"
	}
	return "0"
}

// c15RoundTrip: every operation and result survives the JSON file round trip and the HTTP form.
func c15RoundTrip(r *kit.Run, rec *world.Recording, results map[string]*types.Operation) int {
	n := 0
	var all []*types.Operation
	for i := range rec.W.Nodes {
		for _, sn := range rec.PreSnaps[i] {
			pool, del := sn.RawOps()
			for _, o := range pool {
				all = append(all, o)
			}
			for _, o := range del {
				all = append(all, o)
			}
		}
	}
	for _, o := range results {
		all = append(all, o)
	}
	seen := map[string]bool{}
	lab, err := NewLabFor(rec.W, 0)
	if err != nil {
		r.Infra("lab: %v", err)
	}
	defer lab.Node.Stop()
	// a recording echo instance: the handler's DTO is captured by a stub node
	for _, o := range all {
		bz, err := json.Marshal(o)
		if err != nil {
			r.Violation("C15/operation-does-not-serialise", err.Error(), nil)
			continue
		}
		if seen[string(bz)] {
			continue
		}
		seen[string(bz)] = true
		n++
		var back types.Operation
		if err := json.Unmarshal(bz, &back); err != nil {
			r.Violation("C15/operation-does-not-parse-back", err.Error(), map[string]string{"id": o.ID})
			continue
		}
		bz2, _ := json.Marshal(&back)
		if !bytes.Equal(bz, bz2) || !back.CreatedAt.Equal(o.CreatedAt) || !bytes.Equal(back.Payload, o.Payload) || len(back.ResultMsgs) != len(o.ResultMsgs) {
			r.Violation("C15/json-round-trip-changes-operation", fmt.Sprintf("operation %s (%s) changes through serialise/parse", o.ID[:8], o.Type), map[string]string{"id": o.ID})
		}
	}
	// HTTP path: a genuine result posted to the real handler must have the same effect as the
	// direct submission (same board appends), in the state where its operation is pending
	e := echo.New()
	e.HideBanner = true
	e.Use(func(next echo.HandlerFunc) echo.HandlerFunc {
		return func(c echo.Context) error { return next(cs.New(c)) }
	})
	router.SetRouter(e, nil, lab.Node.Svc, lab.Node.SP)
	for id, res := range results {
		var base world.Snapshot
		for _, sn := range rec.PreSnaps[0] {
			pool, del := sn.RawOps()
			if _, ok := pool[id]; ok {
				if _, d := del[id]; !d {
					base = sn
					break
				}
			}
		}
		if base == nil {
			continue
		}
		lab.Node.Mem.Restore(base)
		lab.Board.SetLog(nil)
		if err := lab.Node.SubmitResult(cloneOp15(res)); err != nil {
			continue
		}
		direct := lab.Board.Log()
		directSnap := lab.Node.Mem.Snapshot()
		lab.Node.Mem.Restore(base)
		lab.Board.SetLog(nil)
		body, _ := json.Marshal(res)
		req := httptest.NewRequest(http.MethodPost, "/handleProcessedOperationJSON", bytes.NewReader(body))
		req.Header.Set("Content-Type", "application/json")
		rw := httptest.NewRecorder()
		e.ServeHTTP(rw, req)
		viaHTTP := lab.Board.Log()
		n++
		same := rw.Code == http.StatusOK && len(direct) == len(viaHTTP) && lab.Node.Mem.Snapshot().WithoutOffset().Equal(directSnap.WithoutOffset())
		for i := 0; same && i < len(direct); i++ {
			if !bytes.Equal(direct[i].Data, viaHTTP[i].Data) || direct[i].Event != viaHTTP[i].Event || direct[i].RecipientAddr != viaHTTP[i].RecipientAddr {
				same = false
			}
		}
		if !same {
			r.Violation("C15/http-path-differs", fmt.Sprintf("the result of %s posted through the HTTP handler (status %d, %d messages) does not have the effect of the direct submission (%d messages): %s", res.Type, rw.Code, len(viaHTTP), len(direct), strings.TrimSpace(rw.Body.String())), map[string]string{"id": id})
		}
	}
	return n
}

var _ kit.Finding

// c15ResultFiles: the result FILE the machine writes is what travels back. Every operation of the
// ceremony is processed on a machine and then fed to it a second time (the operator scans it
// again; for the key-generation steps the second answer is a short error report): after every
// processing the file must hold exactly one JSON operation, the one just produced.
func c15ResultFiles(r *kit.Run, rec *world.Recording) int {
	n := 0
	for i := range rec.W.Airs {
		ops := machineOps(r, rec, i)
		a, err := freshMachineAt(rec, i, ops, 0)
		if err != nil {
			r.Infra("machine %d: %v", i, err)
		}
		feed := func(o types.Operation, label string) {
			path, perr := func() (p string, e error) {
				defer func() {
					if x := recover(); x != nil {
						e = fmt.Errorf("panic: %v", x)
					}
				}()
				return a.M.ProcessOperation(o, true)
			}()
			if perr != nil {
				return
			}
			n++
			bz, rerr := os.ReadFile(path)
			if rerr != nil {
				r.Violation("C15/result-file-unreadable", fmt.Sprintf("machine %d, %s of %s: %v", i, label, o.Type, rerr), map[string]interface{}{"machine": i, "operation": o.ID, "history": label})
				return
			}
			var back types.Operation
			if jerr := json.Unmarshal(bz, &back); jerr != nil {
				r.Violation("C15/result-file-does-not-parse/"+label, fmt.Sprintf("machine %d, %s of the %s operation: the result file (%d bytes) is not one JSON operation: %v", i, label, o.Type, len(bz), jerr), map[string]interface{}{"machine": i, "operation": o.ID, "history": label, "file": filepath.Base(path)})
				return
			}
			if back.ID != o.ID || string(back.Type) != string(o.Type) || !bytes.Equal(back.Payload, o.Payload) {
				r.Violation("C15/result-file-is-another-operation/"+label, fmt.Sprintf("machine %d, %s of %s: the file holds operation %s", i, label, o.Type, back.ID), map[string]interface{}{"machine": i, "operation": o.ID})
			}
		}
		for _, o := range ops {
			feed(o, "first-processing")
		}
		for _, o := range ops {
			feed(o, "second-processing")
		}
		a.Close()
		os.RemoveAll(a.Dir)
	}
	return n
}
