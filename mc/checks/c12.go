package checks

import (
	"encoding/json"
	"errors"
	"fmt"
	"os"
	"sort"
	"strings"
	"sync"
	"time"

	dkgPedersen "github.com/corestario/kyber/share/dkg/pedersen"

	"github.com/lidofinance/dc4bc/client/api/dto"
	"github.com/lidofinance/dc4bc/client/types"
	"github.com/lidofinance/dc4bc/fsm/fsm"
	dpf "github.com/lidofinance/dc4bc/fsm/state_machines/dkg_proposal_fsm"
	spf "github.com/lidofinance/dc4bc/fsm/state_machines/signature_proposal_fsm"
	sif "github.com/lidofinance/dc4bc/fsm/state_machines/signing_proposal_fsm"
	"github.com/lidofinance/dc4bc/fsm/types/requests"

	"verif/mc/kit"
	"verif/mc/oracle"
	"verif/mc/world"
)

func init() { Registry["C12"] = c12 }

// airPlan describes where participant P's machine is stopped.
type airPlan struct {
	// clean restarts after the machine answered its k-th operation (1-based), several allowed
	CleanAfter []int
	// kill inside the k-th operation at the j-th database write, before ("pre") or after ("post") it
	KillStep, KillWrite int
	KillPhase           string
}

func (p airPlan) String() string {
	var parts []string
	if p.KillStep > 0 {
		parts = append(parts, fmt.Sprintf("killed inside operation %d %s database write %d", p.KillStep, map[string]string{"pre": "before", "post": "after"}[p.KillPhase], p.KillWrite))
	}
	for _, k := range p.CleanAfter {
		parts = append(parts, fmt.Sprintf("restarted after operation %d", k))
	}
	if len(parts) == 0 {
		return "never stopped"
	}
	return strings.Join(parts, ", ")
}

// airObs is what C12 compares between the interrupted and the uninterrupted machine.
type airObs struct {
	PubKey    string
	Commits   string
	Responses string            // (dealer, verifier, status) triples, signatures are randomised
	MasterKey string            // announced key and polynomial
	Partial   string            // partial signature of a fixed batch
	Keyrings  map[int][2]string // every machine's polynomial and share at the end
	Ready     bool
	Detail    string
	// Republished: "" when every result file the replay after a restart wrote again publishes
	// what the machine published for that operation before (else the first difference)
	Republished string
}

type airRun struct {
	n, t, p int
	w       *world.World
	plan    airPlan
	step    int // operations answered by P's machine so far
	writes  int // database writes inside the current operation
	killed  bool
	round   string
	obs     airObs
	mu      sync.Mutex
	// backwards: the node's clock is set back a minute before every round of operator answers (an
	// operator correcting the clock): operations are stamped with decreasing creation times
	backwards bool
	// what P's machine published per answered operation (see published()), and the operations
	pub map[string]string
	ops map[string]*types.Operation
}

// published renders what a result file carries to the board: event, and per message its event
// and addressee, plus the payload where it is deterministic (commitments, announced key);
// ciphertexts and signatures are randomised.
func published(op *types.Operation, res *types.Operation) string {
	var parts []string
	for _, m := range res.ResultMsgs {
		x := m.Event + "->" + m.RecipientAddr
		switch fsm.State(op.Type) {
		case dpf.StateDkgCommitsAwaitConfirmations, dpf.StateDkgMasterKeyAwaitConfirmations:
			x += ":" + string(m.Data)
		}
		parts = append(parts, x)
	}
	sort.Strings(parts)
	return fmt.Sprintf("%s [%d messages] %s", res.Event, len(res.ResultMsgs), strings.Join(parts, " | "))
}

func (a *airRun) restartMachine(r *kit.Run) error {
	air := a.w.Airs[a.p]
	if err := air.Restart(); err != nil {
		// a machine that cannot be reopened from its own database with the operator's password
		// does not "carry on": the ceremony fails (judged by cmpAir)
		return fmt.Errorf("the machine cannot be reopened from its database: %w", err)
	}
	// HowTo: run replay_operations_log exactly once after a restart
	if err := air.M.ReplayOperationsLog(a.round); err != nil && !strings.Contains(err.Error(), "operation log not found") {
		a.obs.Detail = "replay failed: " + err.Error()
	}
	// "it republishes the same commitments": the replay writes the result files of the logged
	// operations again - the operator may carry any of them to the node
	ids := make([]string, 0, len(a.pub))
	for id := range a.pub {
		ids = append(ids, id)
	}
	sort.Strings(ids)
	for _, id := range ids {
		bz, err := os.ReadFile(air.ResultFile(a.ops[id]))
		if err != nil || len(bz) == 0 {
			continue
		}
		var again types.Operation
		if json.Unmarshal(bz, &again) != nil {
			continue
		}
		if got := published(a.ops[id], &again); got != a.pub[id] && a.obs.Republished == "" {
			a.obs.Republished = fmt.Sprintf("operation %s: before the stop %q, after the replay %q", a.ops[id].Type, clip(a.pub[id], 160), clip(got, 160))
		}
	}
	return nil
}

func clip(s string, n int) string {
	if len(s) > n {
		return s[:n] + "..."
	}
	return s
}

func (a *airRun) operateP(r *kit.Run, op *types.Operation) error {
	w := a.w
	nd := w.Nodes[a.p]
	if fsm.State(op.Type) == spf.StateAwaitParticipantsConfirmations {
		return nd.Svc.ApproveParticipation(&dto.OperationIdDTO{OperationID: op.ID})
	}
	air := w.Airs[a.p]
	a.mu.Lock()
	a.step++
	a.writes = 0
	a.mu.Unlock()
	res, err := air.Process(op)
	var killed *world.MachineKilled
	if errors.As(err, &killed) {
		if rerr := a.restartMachine(r); rerr != nil {
			return rerr
		}
		// the operator looks for the result file; the replay re-creates it for logged operations
		if bz, ferr := os.ReadFile(air.ResultFile(op)); ferr == nil && len(bz) > 0 {
			var fromFile types.Operation
			if jerr := json.Unmarshal(bz, &fromFile); jerr == nil {
				res, err = &fromFile, nil
			}
		}
		if res == nil {
			res, err = air.Process(op)
		}
	}
	if err != nil {
		return fmt.Errorf("airgapped: %w", err)
	}
	a.record(op, res)
	if !op.IsSigningState() {
		if a.pub == nil {
			a.pub, a.ops = map[string]string{}, map[string]*types.Operation{}
		}
		if _, seen := a.pub[op.ID]; !seen {
			cp := *op
			a.pub[op.ID], a.ops[op.ID] = published(op, res), &cp
		}
	}
	if err := nd.SubmitResult(res); err != nil {
		return err
	}
	for _, k := range a.plan.CleanAfter {
		if k == a.step {
			if rerr := a.restartMachine(r); rerr != nil {
				return rerr
			}
		}
	}
	return nil
}

func (a *airRun) record(op *types.Operation, res *types.Operation) {
	if len(res.ResultMsgs) == 0 {
		return
	}
	switch fsm.State(op.Type) {
	case dpf.StateDkgCommitsAwaitConfirmations:
		var req requests.DKGProposalCommitConfirmationRequest
		_ = json.Unmarshal(res.ResultMsgs[0].Data, &req)
		a.obs.Commits = string(res.Event) + ":" + string(req.Commit)
	case dpf.StateDkgResponsesAwaitConfirmations:
		var req requests.DKGProposalResponseConfirmationRequest
		_ = json.Unmarshal(res.ResultMsgs[0].Data, &req)
		var rs []*dkgPedersen.Response
		_ = json.Unmarshal(req.Response, &rs)
		var parts []string
		for _, x := range rs {
			if x != nil && x.Response != nil {
				parts = append(parts, fmt.Sprintf("%d/%d/%v", x.Index, x.Response.Index, x.Response.Status))
			}
		}
		sort.Strings(parts) // the machine collects deals in a Go map: the order is arbitrary in any run
		a.obs.Responses = string(res.Event) + ":" + strings.Join(parts, ",")
	case dpf.StateDkgMasterKeyAwaitConfirmations:
		var req requests.DKGProposalMasterKeyConfirmationRequest
		_ = json.Unmarshal(res.ResultMsgs[0].Data, &req)
		a.obs.MasterKey = fmt.Sprintf("%s:%x:%s", res.Event, req.MasterKey, req.PubPolyBz)
	case sif.StateSigningAwaitPartialSigns:
		var req requests.SigningProposalBatchPartialSignRequests
		_ = json.Unmarshal(res.ResultMsgs[0].Data, &req)
		bz, _ := json.Marshal(req.PartialSigns)
		a.obs.Partial = string(res.Event) + ":" + string(bz)
	}
}

func (a *airRun) drive(r *kit.Run) error {
	w := a.w
	for iter := 0; iter < 200; iter++ {
		if a.backwards {
			world.SetClock(world.Clock().Add(-time.Minute))
		}
		if err := w.DrainAll(); err != nil {
			return err
		}
		cnt := 0
		for i := 0; i < a.n; i++ {
			for _, op := range w.Nodes[i].PendingOps() {
				var err error
				if i == a.p {
					err = a.operateP(r, op)
				} else {
					err = w.Operate(i, op.ID)
				}
				if err != nil {
					return fmt.Errorf("participant %d, %s: %w", i, op.Type, err)
				}
				cnt++
			}
		}
		if cnt == 0 {
			return nil
		}
	}
	return fmt.Errorf("no quiescence")
}

func runAir(r *kit.Run, n, t, p int, plan airPlan) airObs {
	return runAirAfter(r, n, t, p, plan, false)
}

// runAirAfter: with prior set, the machines have been through an earlier, complete ceremony of
// the same participants in the same process lifetime (another round id) before the ceremony that
// is interrupted: whatever a machine keeps in memory from round to round is then not what a
// reopened machine has.
func runAirAfter(r *kit.Run, n, t, p int, plan airPlan, prior bool) airObs {
	return runAirOpt(r, n, t, p, plan, prior, false)
}

func runAirOpt(r *kit.Run, n, t, p int, plan airPlan, prior, backwards bool) airObs {
	w, err := world.NewWorld(n)
	if err != nil {
		r.Infra("world: %v", err)
	}
	defer func() {
		w.Close()
		for _, a := range w.Airs {
			os.RemoveAll(a.Dir)
		}
	}()
	a := &airRun{n: n, t: t, p: p, w: w, plan: plan, backwards: backwards}
	priorRound := ""
	priorKeyrings := map[int][2]string{}
	keyringOf := func(i int, round string) [2]string {
		air := w.Airs[i]
		if air.M == nil {
			return [2]string{"none", "machine not running"}
		}
		krs, err := air.M.GetBLSKeyrings()
		if err != nil || krs[round] == nil {
			return [2]string{"none", fmt.Sprint(err)}
		}
		cs, _ := oracle.PolyCommitBytes(krs[round].PubPoly)
		sh, _ := krs[round].Share.V.MarshalBinary()
		return [2]string{fmt.Sprintf("%x", cs), fmt.Sprintf("%d:%x", krs[round].Share.I, sh)}
	}
	if prior {
		pr, err := w.StartDKGOver(t, n-1, seqInts(n), func(q *requests.SignatureProposalParticipantsListRequest) { q.CreatedAt = q.CreatedAt.Add(-time.Hour) })
		if err != nil {
			r.Infra("StartDKG (earlier ceremony): %v", err)
		}
		priorRound = pr
		for iter := 0; ; iter++ {
			if err := w.DrainAll(); err != nil {
				r.Infra("earlier ceremony: %v", err)
			}
			cnt := 0
			for i := 0; i < n; i++ {
				for _, op := range w.Nodes[i].PendingOps() {
					if err := w.Operate(i, op.ID); err != nil {
						r.Infra("earlier ceremony, participant %d, %s: %v", i, op.Type, err)
					}
					cnt++
				}
			}
			if cnt == 0 {
				break
			}
			if iter > 200 {
				r.Infra("earlier ceremony: no quiescence")
			}
		}
		for i, nd := range w.Nodes {
			if st := nd.RoundState(pr); st != string(sif.StateSigningIdle) {
				r.Infra("earlier ceremony: node %d ends in %s", i, st)
			}
			priorKeyrings[i] = keyringOf(i, pr)
		}
	}
	path := w.Airs[p].DBPath()
	world.RegisterDBHook(path, func(op, phase string, key []byte) {
		if op == "open" {
			return
		}
		a.mu.Lock()
		if phase == "pre" {
			a.writes++
		}
		hit := !a.killed && a.plan.KillStep == a.step && a.plan.KillWrite == a.writes && a.plan.KillPhase == phase
		if hit {
			a.killed = true
		}
		a.mu.Unlock()
		if hit {
			panic(world.CrashSentinel{Point: fmt.Sprintf("operation %d write %d %s (%s %s)", a.step, a.writes, phase, op, key)})
		}
	})
	defer world.UnregisterDBHook(path)
	a.obs.PubKey = fmt.Sprintf("%x", w.Airs[p].PubKeyBytes())
	a.obs.Keyrings = map[int][2]string{}
	round, err := w.StartDKG(t, n-1)
	if err != nil {
		r.Infra("StartDKG: %v", err)
	}
	a.round = round
	if err := a.drive(r); err != nil {
		a.obs.Detail = err.Error()
		return a.obs
	}
	a.obs.Ready = true
	for i, nd := range w.Nodes {
		if st := nd.RoundState(round); st != string(sif.StateSigningIdle) {
			a.obs.Ready = false
			a.obs.Detail = fmt.Sprintf("node %d ends in %s", i, st)
		}
	}
	if a.obs.Ready {
		w.Propose(0, round, "c12-batch", world.SimpleTasks("c12", []byte("c12 payload")))
		if err := a.drive(r); err != nil {
			a.obs.Detail = err.Error()
			a.obs.Ready = false
		}
	}
	for i, air := range w.Airs {
		if air.M == nil { // could not be reopened
			a.obs.Keyrings[i] = [2]string{"none", "machine not running"}
			continue
		}
		krs, err := air.M.GetBLSKeyrings()
		if err != nil || krs[round] == nil {
			a.obs.Keyrings[i] = [2]string{"none", fmt.Sprint(err)}
			continue
		}
		cs, _ := oracle.PolyCommitBytes(krs[round].PubPoly)
		sh, _ := krs[round].Share.V.MarshalBinary()
		a.obs.Keyrings[i] = [2]string{fmt.Sprintf("%x", cs), fmt.Sprintf("%d:%x", krs[round].Share.I, sh)}
	}
	if w.Airs[p].M == nil {
		return a.obs
	}
	// the key material of the earlier round is still what it was
	for i := range w.Airs {
		if prior && keyringOf(i, priorRound) != priorKeyrings[i] {
			a.obs.Keyrings[1000+i] = [2]string{"earlier round", "the key material machine " + fmt.Sprint(i) + " holds for the EARLIER round changed"}
		}
	}
	if fmt.Sprintf("%x", w.Airs[p].PubKeyBytes()) != a.obs.PubKey {
		a.obs.PubKey = "changed-after-restart"
	}
	return a.obs
}

func c12(tier string, args []string) int {
	r := newRun("C12", tier, "fault_enumeration")
	r.Assume = []string{
		"a restarted machine is brought up as cmd/airgapped does (NewMachine, password, InitKeys) and replay_operations_log is run exactly once; the operator uses the result file the replay re-creates for a logged operation and feeds the operation again otherwise",
		"deal ciphertexts and response signatures are randomised inside kyber: deals are compared through their effect (every machine's final share and polynomial), responses by (dealer, verifier, status)",
	}
	cfgs := allNT(2, 4)
	if tier == "thorough" {
		cfgs = allNT(2, 5)
	}
	evals, distinct := 0, 0
	var mu sync.Mutex
	for _, nt := range cfgs {
		ref := runAir(r, nt.n, nt.t, 0, airPlan{})
		if !ref.Ready || ref.Partial == "" {
			r.Infra("uninterrupted ceremony n=%d t=%d did not complete: %s", nt.n, nt.t, ref.Detail)
		}
		// the same mnemonic twice: an independent world gives the same key material
		ref2 := runAir(r, nt.n, nt.t, 0, airPlan{})
		cmpAir(r, nt, 0, "a second set of machines created from the same mnemonics", ref, ref2)
		evals++
		var plans []airPlan
		for k := 1; k <= 5; k++ {
			plans = append(plans, airPlan{CleanAfter: []int{k}})
		}
		for k := 1; k <= 4; k++ {
			writes := 1
			if k == 4 {
				writes = 2
			}
			for j := 1; j <= writes; j++ {
				for _, ph := range []string{"pre", "post"} {
					plans = append(plans, airPlan{KillStep: k, KillWrite: j, KillPhase: ph})
				}
			}
		}
		for k1 := 1; k1 <= 4; k1++ {
			for k2 := k1 + 1; k2 <= 5; k2++ {
				plans = append(plans, airPlan{CleanAfter: []int{k1, k2}})
			}
		}
		for k := 1; k <= 3; k++ {
			plans = append(plans, airPlan{KillStep: k, KillWrite: 1, KillPhase: "post", CleanAfter: []int{k + 1}})
		}
		type job struct {
			p     int
			plan  airPlan
			prior bool
		}
		// machines that went through an earlier ceremony in the same process lifetime
		var refPrior airObs
		withPrior := nt.n <= 3 || tier == "thorough"
		if withPrior {
			refPrior = runAirAfter(r, nt.n, nt.t, 0, airPlan{}, true)
			if !refPrior.Ready || refPrior.Partial == "" {
				r.Infra("uninterrupted second ceremony n=%d t=%d did not complete: %s", nt.n, nt.t, refPrior.Detail)
			}
		}
		ch := make(chan job)
		var wg sync.WaitGroup
		for wk := 0; wk < 12; wk++ {
			wg.Add(1)
			go func() {
				defer wg.Done()
				for jb := range ch {
					if jb.prior {
						got := runAirAfter(r, nt.n, nt.t, jb.p, jb.plan, true)
						cmpAirPK(r, nt, jb.p, jb.plan, refPrior, got, "second-ceremony-of-the-machines:")
					} else {
						got := runAir(r, nt.n, nt.t, jb.p, jb.plan)
						cmpAirP(r, nt, jb.p, jb.plan, ref, got)
					}
					mu.Lock()
					evals++
					distinct++
					if evals < 6 {
						r.Sample(map[string]interface{}{"n": nt.n, "t": nt.t, "participant": jb.p, "plan": jb.plan.String()})
					}
					mu.Unlock()
				}
			}()
		}
		for p := 0; p < nt.n; p++ {
			for _, pl := range plans {
				if r.TimeUp() {
					break
				}
				ch <- job{p, pl, false}
			}
		}
		if withPrior {
			for p := 0; p < nt.n; p++ {
				for _, pl := range plans {
					if r.TimeUp() {
						break
					}
					if len(pl.CleanAfter) > 1 {
						continue // single stops and kills; pairs are covered in a machine's first ceremony
					}
					ch <- job{p, pl, true}
				}
			}
		}
		close(ch)
		wg.Wait()
		// the node's clock set back before every round of answers (the clock is process-wide in
		// the harness: these ceremonies run one after the other)
		if nt.n <= 3 || tier == "thorough" {
			world.SetClock(world.T0.Add(3 * time.Hour))
			refBack := runAirOpt(r, nt.n, nt.t, 0, airPlan{}, false, true)
			if !refBack.Ready || refBack.Partial == "" {
				r.Infra("uninterrupted ceremony with the clock set back n=%d t=%d did not complete: %s", nt.n, nt.t, refBack.Detail)
			}
			for p := 0; p < nt.n && !r.TimeUp(); p++ {
				for _, pl := range plans {
					if len(pl.CleanAfter) != 1 {
						continue // clean restarts after each operation, and a kill followed by a restart
					}
					world.SetClock(world.T0.Add(3 * time.Hour))
					got := runAirOpt(r, nt.n, nt.t, p, pl, false, true)
					cmpAirPK(r, nt, p, pl, refBack, got, "node-clock-set-back-between-the-steps:")
					evals++
					distinct++
				}
			}
			world.SetClock(world.T0)
		}
	}
	r.Set("evaluations", evals)
	r.Set("distinct_nontrivial", distinct)
	r.Set("rule", "every (n,t) x participant x stop plan (clean restart after each of the 5 operations, kill before/after every database write inside each key-generation operation, pairs of restarts, kill + later restart) runs a complete ceremony + signing batch with real nodes and machines; the stopped machine is reopened from its database and replayed once; the same single stops and kills in the SECOND ceremony of machines that completed an earlier one in the same process lifetime (n<=3; all in the thorough tier), where the earlier round's key material must also stay what it was; clean restarts (and kill + restart) with the node's clock set back a minute before every round of answers, so that operations carry decreasing creation times; compared with the uninterrupted run: long-term key, commitments, responses, announced key/polynomial, every machine's final polynomial and share, the partial signature of a fixed batch")
	return finish(r)
}

func cmpAir(r *kit.Run, nt ntPair, p int, label string, ref, got airObs) {
	trace := map[string]interface{}{"n": nt.n, "t": nt.t, "participant": p, "scenario": label}
	key := strings.ReplaceAll(strings.Fields(label)[0], " ", "-")
	if !got.Ready {
		r.Violation("C12/ceremony-fails/"+key, fmt.Sprintf("n=%d t=%d participant %d, %s: the ceremony does not complete (%s)", nt.n, nt.t, p, label, got.Detail), trace)
		return
	}
	type f struct{ name, a, b string }
	for _, x := range []f{{"long-term-key", ref.PubKey, got.PubKey}, {"commitments", ref.Commits, got.Commits}, {"responses", ref.Responses, got.Responses}, {"announced-key", ref.MasterKey, got.MasterKey}, {"partial-signature", ref.Partial, got.Partial}} {
		if p != 0 && (x.name == "long-term-key" || x.name == "commitments" || x.name == "responses" || x.name == "announced-key" || x.name == "partial-signature") {
			// the per-participant observations of the reference are those of participant 0;
			// for other participants the final key material below is the judge
			if x.name != "announced-key" {
				continue
			}
			// the announced key and polynomial are the same for every participant
		}
		if x.a != x.b {
			r.Violation("C12/differs/"+x.name+"/"+key, fmt.Sprintf("n=%d t=%d participant %d, %s: %s differs from the machine that never stopped", nt.n, nt.t, p, label, x.name), trace)
		}
	}
	if got.Republished != "" {
		r.Violation("C12/differs/republished-result-file/"+key, fmt.Sprintf("n=%d t=%d participant %d, %s: a result file written again by the replay publishes something else than before the stop: %s", nt.n, nt.t, p, label, got.Republished), trace)
	}
	for i, kr := range got.Keyrings {
		if i >= 1000 {
			r.Violation("C12/differs/earlier-round-key-material/"+key, fmt.Sprintf("n=%d t=%d participant %d, %s: %s", nt.n, nt.t, p, label, kr[1]), trace)
		}
	}
	for i, kr := range ref.Keyrings {
		if got.Keyrings[i] != kr {
			r.Violation("C12/differs/final-key-material/"+key, fmt.Sprintf("n=%d t=%d participant %d, %s: machine %d ends with a different polynomial or share than in the uninterrupted ceremony", nt.n, nt.t, p, label, i), trace)
		}
	}
}

func cmpAirP(r *kit.Run, nt ntPair, p int, plan airPlan, ref, got airObs) {
	cmpAirPK(r, nt, p, plan, ref, got, "")
}

func cmpAirPK(r *kit.Run, nt ntPair, p int, plan airPlan, ref, got airObs, prefix string) {
	label := plan.String()
	k := "restart"
	if plan.KillStep > 0 {
		k = fmt.Sprintf("kill-in-operation-%d-%s-write-%d", plan.KillStep, plan.KillPhase, plan.KillWrite)
	} else if len(plan.CleanAfter) > 0 {
		k = fmt.Sprintf("restart-after-operation-%d", plan.CleanAfter[0])
	}
	cmpAir(r, nt, p, prefix+k+" ("+label+")", ref, got)
}

func seqInts(n int) []int {
	out := make([]int, n)
	for i := range out {
		out[i] = i
	}
	return out
}
