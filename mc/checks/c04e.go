package checks

import (
	"bytes"
	"crypto/sha512"
	"encoding/hex"
	"encoding/json"
	"fmt"
	"os"
	"path/filepath"
	"sort"
	"strings"

	"github.com/corestario/kyber"
	"github.com/corestario/kyber/encrypt/ecies"
	"github.com/corestario/kyber/pairing/bls12381"
	dkgPedersen "github.com/corestario/kyber/share/dkg/pedersen"
	vss "github.com/corestario/kyber/share/vss/pedersen"
	"github.com/corestario/kyber/sign/schnorr"

	"github.com/lidofinance/dc4bc/client/types"
	"github.com/lidofinance/dc4bc/fsm/fsm"
	dpf "github.com/lidofinance/dc4bc/fsm/state_machines/dkg_proposal_fsm"
	"github.com/lidofinance/dc4bc/fsm/types/requests"

	"verif/mc/kit"
	"verif/mc/world"
)

// (e) Nonce discipline. Every signature the machine makes with its long-term key is a Schnorr
// signature (R, s = k + H(R,X,m)*x). Two of them with the same commitment R over different
// messages give away x = (s1-s2)/(h1-h2) to whoever holds both result files - the long-term private
// key "contained" in the outputs in the most literal algebraic sense. The nonces of a round come
// from a stream seeded with (round id, base seed), so every history that makes the machine walk
// that stream again (restart + the replay the manual prescribes, dropping the log, a repeated
// operation) is explored, and every pair of signatures found in the result files is judged; for a
// pair that shares R the key is actually recovered and compared with the one the machine holds.

type schnorrRec struct {
	R, S  string // hex
	Msg   []byte // signed bytes (nil if the harness cannot reconstruct them)
	Kind  string
	Where string
}

// schnorrSigsOf extracts the Schnorr signatures machine `owner` put into one result operation.
// Deals are opened with the addressee's key (the addressee is a participant, i.e. a possible adversary).
func schnorrSigsOf(w *world.World, owner int, res *types.Operation, where string, suite vss.Suite) (out []schnorrRec, err error) {
	split := func(sig []byte) (string, string, bool) {
		ps := suite.Point().MarshalSize()
		if len(sig) != ps+suite.Scalar().MarshalSize() {
			return "", "", false
		}
		return hex.EncodeToString(sig[:ps]), hex.EncodeToString(sig[ps:]), true
	}
	add := func(sig, msg []byte, kind string) {
		if R, S, ok := split(sig); ok {
			out = append(out, schnorrRec{R: R, S: S, Msg: msg, Kind: kind, Where: where})
		}
	}
	switch fsm.State(res.Type) {
	case dpf.StateDkgResponsesAwaitConfirmations:
		for _, m := range res.ResultMsgs {
			var req requests.DKGProposalResponseConfirmationRequest
			if json.Unmarshal(m.Data, &req) != nil {
				continue
			}
			var rs []*dkgPedersen.Response
			if json.Unmarshal(req.Response, &rs) != nil {
				continue
			}
			for _, x := range rs {
				if x != nil && x.Response != nil {
					add(x.Response.Signature, x.Response.Hash(suite), fmt.Sprintf("response about dealer %d", x.Index))
				}
			}
		}
	case dpf.StateDkgDealsAwaitConfirmations:
		for _, m := range res.ResultMsgs {
			var req requests.DKGProposalDealConfirmationRequest
			if json.Unmarshal(m.Data, &req) != nil || string(req.Deal) == "self-confirm" {
				continue
			}
			to := -1
			for i, nd := range w.Nodes {
				if nd.Name == m.RecipientAddr {
					to = i
				}
			}
			if to < 0 {
				continue
			}
			plain, derr := ecies.Decrypt(suite, w.Airs[to].M.VerifSecKey(), req.Deal, suite.Hash)
			if derr != nil {
				continue
			}
			var d dkgPedersen.Deal
			if json.Unmarshal(plain, &d) != nil || d.Deal == nil {
				continue
			}
			add(d.Deal.Signature, d.Deal.DHKey, fmt.Sprintf("ephemeral key of the deal for participant %d", to))
			if buff, merr := d.MarshalBinary(); merr == nil {
				add(d.Signature, buff, fmt.Sprintf("deal for participant %d", to))
			}
		}
	}
	return out, nil
}

func schnorrHash(suite vss.Suite, pub kyber.Point, Rhex string, msg []byte) kyber.Scalar {
	h := sha512.New()
	rb, _ := hex.DecodeString(Rhex)
	h.Write(rb)
	pb, _ := pub.MarshalBinary()
	h.Write(pb)
	h.Write(msg)
	return suite.Scalar().SetBytes(h.Sum(nil))
}

// judgeNonces looks for two signatures of one machine with the same commitment and different
// responses, recovers the key and reports.
func judgeNonces(r *kit.Run, suite vss.Suite, w *world.World, owner int, history string, sigs []schnorrRec, trace map[string]interface{}) (pairs int) {
	pub := w.Airs[owner].M.GetPubKey()
	byR := map[string][]schnorrRec{}
	for _, s := range sigs {
		if s.Msg != nil {
			rb, _ := hex.DecodeString(s.R)
			sb, _ := hex.DecodeString(s.S)
			if err := schnorr.Verify(suite, pub, s.Msg, append(rb, sb...)); err != nil {
				r.Infra("C04(e): the harness does not reconstruct the signed bytes of a %s correctly: %v", s.Kind, err)
			}
		}
		byR[s.R] = append(byR[s.R], s)
	}
	keys := make([]string, 0, len(byR))
	for k := range byR {
		keys = append(keys, k)
	}
	sort.Strings(keys)
	for _, R := range keys {
		l := byR[R]
		for i := 1; i < len(l); i++ {
			pairs++
			a, b := l[0], l[i]
			if a.S == b.S {
				continue // the same signature again (same nonce, same message): nothing is learnt
			}
			recovered := "not attempted (signed bytes unknown to the harness)"
			equal := false
			if a.Msg != nil && b.Msg != nil {
				h1, h2 := schnorrHash(suite, pub, R, a.Msg), schnorrHash(suite, pub, R, b.Msg)
				s1b, _ := hex.DecodeString(a.S)
				s2b, _ := hex.DecodeString(b.S)
				s1, s2 := suite.Scalar(), suite.Scalar()
				_ = s1.UnmarshalBinary(s1b)
				_ = s2.UnmarshalBinary(s2b)
				num := suite.Scalar().Sub(s1, s2)
				den := suite.Scalar().Sub(h1, h2)
				x := suite.Scalar().Div(num, den)
				xb, _ := x.MarshalBinary()
				kb, _ := w.Airs[owner].M.VerifSecKey().MarshalBinary()
				recovered = hex.EncodeToString(xb)
				equal = bytes.Equal(xb, kb)
			}
			tr := map[string]interface{}{}
			for k, v := range trace {
				tr[k] = v
			}
			tr["history"] = history
			tr["signature_1"] = a.Kind + " in " + a.Where
			tr["signature_2"] = b.Kind + " in " + b.Where
			tr["shared_commitment_R"] = R[:32] + "..."
			tr["recovered_scalar_equals_long_term_key"] = equal
			what := fmt.Sprintf("machine %d signed two different messages with the same Schnorr nonce (%s in %s; %s in %s)", owner, a.Kind, a.Where, b.Kind, b.Where)
			if equal {
				what += ": x = (s1-s2)/(h1-h2) computed from the two result files IS the machine's long-term private key"
			} else {
				what += ": recovery " + recovered
			}
			r.Violation("C04/long-term-key-computable-from-result-files/"+history, what, tr)
			return pairs
		}
	}
	return pairs
}

func resultOps(dir string) (map[string]*types.Operation, error) {
	out := map[string]*types.Operation{}
	files, err := filepath.Glob(filepath.Join(dir, "*_result.json"))
	if err != nil {
		return nil, err
	}
	for _, f := range files {
		bz, err := os.ReadFile(f)
		if err != nil {
			return nil, err
		}
		var op types.Operation
		if json.Unmarshal(bz, &op) != nil {
			continue
		}
		out[filepath.Base(f)] = &op
	}
	return out, nil
}

func responseOrder(res *types.Operation) string {
	var parts []string
	for _, m := range res.ResultMsgs {
		var req requests.DKGProposalResponseConfirmationRequest
		if json.Unmarshal(m.Data, &req) != nil {
			continue
		}
		var rs []*dkgPedersen.Response
		_ = json.Unmarshal(req.Response, &rs)
		for _, x := range rs {
			if x != nil {
				parts = append(parts, fmt.Sprint(x.Index))
			}
		}
	}
	return strings.Join(parts, ",")
}

func factorial(n int) int {
	f := 1
	for i := 2; i <= n; i++ {
		f *= i
	}
	return f
}

// nonceAction is one step of an operator history on one machine.
type nonceAction struct {
	Kind string // "next" (the next genuine operation), "again" (a genuine operation fed again), "restart" (reopen + replay the log)
	Op   int
}

func (a nonceAction) String() string {
	switch a.Kind {
	case "next":
		return fmt.Sprintf("op%d", a.Op)
	case "again":
		return fmt.Sprintf("op%d-again", a.Op)
	case "drop":
		return "drop_operations_log"
	case "other":
		return "op0-with-threshold+1"
	}
	return "restart+replay"
}

// nonceHistories enumerates every history that contains the four key-generation operations in
// order plus at most maxDev deviations (a processed operation fed again, or a restart with the
// replay the manual prescribes) at any later point.
func nonceHistories(nOps, maxDev int) [][]nonceAction {
	var out [][]nonceAction
	var rec func(cur []nonceAction, next, dev int)
	rec = func(cur []nonceAction, next, dev int) {
		if next == nOps {
			out = append(out, append([]nonceAction(nil), cur...))
		}
		if next < nOps {
			rec(append(cur, nonceAction{"next", next}), next+1, dev)
		}
		if next > 0 && dev < maxDev {
			rec(append(cur, nonceAction{"restart", -1}), next, dev+1)
			for j := 0; j < next; j++ {
				rec(append(cur, nonceAction{"again", j}), next, dev+1)
			}
		}
	}
	rec(nil, 0, 0)
	return out
}

// c04Nonces runs the histories of part (e) on machines rebuilt from the recorded ceremony.
func c04Nonces(r *kit.Run, tier string, evals, distinct *int) {
	suite := bls12381.NewBLS12381Suite(nil)
	nt := ntPair{3, 2}
	rec := getRecording(r, nt.n, nt.t)
	w := rec.W
	machines, maxDev, replays := []int{0}, 2, 12
	if tier == "thorough" {
		machines, maxDev, replays = []int{0, 1, 2}, 3, 40
	}
	var cover []string
	histories := 0
	outcomes := map[string]bool{}
	for _, p := range machines {
		ops := machineOps(r, rec, p)
		if len(ops) < 4 {
			r.Infra("machine %d: expected 4 key-generation operations, found %d", p, len(ops))
		}
		ops = ops[:4]
		run := func(h []nonceAction) ([]schnorrRec, map[string]bool, error) {
			a, err := freshMachineAt(rec, p, ops, 0)
			if err != nil {
				return nil, nil, err
			}
			defer func() { a.Close(); os.RemoveAll(a.Dir) }()
			var sigs []schnorrRec
			seen := map[string]bool{}
			orders := map[string]bool{}
			take := func(op *types.Operation, where string) {
				got, _ := schnorrSigsOf(w, p, op, where, suite)
				for _, g := range got {
					if !seen[g.R+g.S] {
						seen[g.R+g.S] = true
						sigs = append(sigs, g)
					}
				}
				if fsm.State(op.Type) == dpf.StateDkgResponsesAwaitConfirmations {
					orders[responseOrder(op)] = true
				}
			}
			dropped := false
			for step, act := range h {
				where := fmt.Sprintf("step %d (%s)", step+1, act)
				switch act.Kind {
				case "next", "again":
					o := ops[act.Op]
					res, perr := a.Process(&o)
					if perr == nil && res != nil {
						take(res, "the result file of "+where)
					}
				case "drop":
					_ = a.M.DropOperationsLog(rec.Round)
					dropped = true
				case "other":
					// the first operation of the same round id with another threshold: the machine
					// must not walk the round's nonce stream a second time for it
					o := ops[0]
					var pl []map[string]interface{}
					if json.Unmarshal(o.Payload, &pl) == nil {
						for i := range pl {
							pl[i]["Threshold"] = nt.t + 1
						}
						o.Payload, _ = json.Marshal(pl)
					}
					res, perr := a.Process(&o)
					if perr == nil && res != nil {
						take(res, "the result file of "+where)
					}
				case "restart":
					if err := a.Restart(rec.Round); err != nil {
						if strings.Contains(err.Error(), "operation log not found") {
							continue // nothing logged for the round (after drop_operations_log)
						}
						if dropped {
							// a log that no longer starts with the round's first operation cannot
							// be replayed: the history ends here, what was emitted so far is judged
							return sigs, orders, nil
						}
						return nil, nil, fmt.Errorf("%s: %w", where, err)
					}
					files, err := resultOps(a.Results)
					if err != nil {
						return nil, nil, err
					}
					for _, name := range world.SortedKeys(files) {
						take(files[name], name+" as rewritten by "+where)
					}
				}
			}
			return sigs, orders, nil
		}
		// (e1) the plain ceremony followed by repeated restart + replay: the responses step walks
		// the received deals in Go map order, which the harness cannot choose - it is observed
		h := []nonceAction{{"next", 0}, {"next", 1}, {"next", 2}, {"next", 3}}
		for k := 0; k < replays; k++ {
			h = append(h, nonceAction{"restart", -1})
		}
		sigs, orders, err := run(h)
		if err != nil {
			r.Infra("C04(e) machine %d: %v", p, err)
		}
		*evals += len(sigs)
		pairs := judgeNonces(r, suite, w, p, "restart-and-replay", sigs, map[string]interface{}{"n": nt.n, "t": nt.t, "machine": p, "replays": replays, "deal_orders_observed": world.SortedKeys(orders)})
		cover = append(cover, fmt.Sprintf("machine %d: ceremony + %d x restart/replay: %d distinct signatures, %d same-R pairs, deal orders observed %v", p, replays, len(sigs), pairs, world.SortedKeys(orders)))
		// (e2) every history with at most maxDev deviations
		for _, h := range nonceHistories(len(ops), maxDev) {
			if r.TimeUp() {
				break
			}
			sigs, _, err := run(h)
			if err != nil {
				r.Infra("C04(e) machine %d history %v: %v", p, h, err)
			}
			histories++
			*evals++
			var names []string
			for _, a := range h {
				names = append(names, a.String())
			}
			outcomes[fmt.Sprint(len(sigs))] = true
			judgeNonces(r, suite, w, p, "operator-history", sigs, map[string]interface{}{"n": nt.n, "t": nt.t, "machine": p, "operator_history": names})
			if histories == 7 {
				r.Sample(map[string]interface{}{"kind": "nonce discipline", "machine": p, "operator_history": names, "distinct_signatures": len(sigs)})
			}
		}
		// (e3) the log is dropped (drop_operations_log) and the round's first operation comes again
		// with another threshold: every sequence of up to 4 such steps after the deals step
		alpha := []nonceAction{{"drop", -1}, {"restart", -1}, {"other", 0}, {"again", 1}}
		var seqs [][]nonceAction
		var gen func(cur []nonceAction)
		gen = func(cur []nonceAction) {
			if len(cur) > 0 {
				seqs = append(seqs, append([]nonceAction(nil), cur...))
			}
			if len(cur) == 4 {
				return
			}
			for _, a := range alpha {
				if len(cur) > 0 && cur[len(cur)-1] == a && a.Kind != "again" {
					continue
				}
				gen(append(cur, a))
			}
		}
		gen(nil)
		for _, tail := range seqs {
			if r.TimeUp() {
				break
			}
			h := append([]nonceAction{{"next", 0}, {"next", 1}}, tail...)
			sigs, _, err := run(h)
			if err != nil {
				r.Infra("C04(e) machine %d history %v: %v", p, h, err)
			}
			histories++
			*evals++
			var names []string
			for _, a := range h {
				names = append(names, a.String())
			}
			judgeNonces(r, suite, w, p, "round-started-again", sigs, map[string]interface{}{"n": nt.n, "t": nt.t, "machine": p, "operator_history": names})
		}
	}
	*distinct += histories
	r.Set("nonce_discipline", cover)
	r.Set("nonce_histories", histories)
	r.Set("nonce_histories_max_deviations", maxDev)
}
