package checks

import (
	"fmt"

	"verif/mc/world"
	"verif/mc/worldx"
)

func init() { Registry["dbg"] = dbg }

func dbg(tier string, args []string) int {
	out := world.RealStdout
	r := newRun("DBG", tier, "exploration")
	d := &DKGRun{N: 2, T: 2}
	d.Setup(r)
	k := d.K
	s := d.Init
	// order A: node0 then node1 ; order B: node1 then node0
	step := func(s *worldx.State, i int) *worldx.State {
		ops := k.Pending(s, i)
		c, _, err := k.OperateOp(s, i, ops[0].ID, nil)
		if err != nil {
			fmt.Fprintln(out, err)
		}
		c, _ = k.DrainEager(c, nil)
		return c
	}
	a := step(step(s, 0), 1)
	b := step(step(s, 1), 0)
	fmt.Fprintln(out, a.Key() == b.Key(), a.KeyNoLog, b.KeyNoLog)
	for i := range a.Snap {
		if a.Snap[i] != b.Snap[i] {
			sa, sb := k.C.Snapshot(a.Snap[i]), k.C.Snapshot(b.Snap[i])
			for _, key := range sa.DiffKeys(sb) {
				x, y := sa[key], sb[key]
				for p := 0; p < len(x) && p < len(y); p++ {
					if x[p] != y[p] {
						lo := p - 80
						if lo < 0 {
							lo = 0
						}
						hi := p + 80
						if hi > len(x) {
							hi = len(x)
						}
						hj := p + 80
						if hj > len(y) {
							hj = len(y)
						}
						fmt.Fprintf(out, "node %d key %s differs at %d:\n A: %s\n B: %s\n", i, key, p, x[lo:hi], y[lo:hj])
						break
					}
				}
			}
		}
	}
	return 0
}
