package checks

import (
	"fmt"

	"verif/mc/world"
)

func init() { Registry["dbg-det"] = dbgDet }

func dbgDet(tier string, args []string) int {
	out := world.RealStdout
	var logs [2][]string
	for x := 0; x < 2; x++ {
		w, _ := world.NewWorld(2)
		_, err := w.RunDKG(2)
		if err != nil {
			fmt.Fprintln(out, err)
		}
		for _, m := range w.Board.Log() {
			logs[x] = append(logs[x], fmt.Sprintf("%s %s %s %x", m.Event, m.SenderAddr, m.RecipientAddr, m.Data))
		}
		w.Close()
	}
	for i := range logs[0] {
		if logs[0][i] != logs[1][i] {
			a, b := logs[0][i], logs[1][i]
			if len(a) > 150 {
				a = a[:150]
			}
			if len(b) > 150 {
				b = b[:150]
			}
			fmt.Fprintf(out, "diff at %d:\n %s\n %s\n", i, a, b)
		}
	}
	return 0
}
