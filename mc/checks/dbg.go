package checks

import (
	"encoding/json"
	"fmt"

	"github.com/corestario/kyber/sign/tbls"
	"github.com/lidofinance/dc4bc/fsm/types/requests"

	"verif/mc/oracle"
	"verif/mc/world"
)

func init() { Registry["dbg"] = dbg }

func dbg(tier string, args []string) int {
	out := world.RealStdout
	r := newRun("DBG", tier, "exploration")
	sw := SetupSignWorld(r, 3, 2, 1)
	k := sw.Workers[0]
	krs, _ := k.W.Airs[0].M.GetBLSKeyrings()
	pubPoly := krs[sw.Round].PubPoly
	for _, tasks := range [][]requests.SigningTask{{taskAlphabet()[1]}, {taskAlphabet()[0], taskAlphabet()[1]}, {{MessageID: "t-bin", File: "ok", Payload: []byte{0xff, 0xfe, 0x00, 0x80}}}} {
		m := k.W.ProposalMessage(0, sw.Round, "dbgb"+fmt.Sprint(len(tasks))+tasks[0].File, tasks)
		s1 := k.PostMsg(sw.Init, m, "p")
		s1, _ = k.DrainEager(s1, nil)
		ops := k.Pending(s1, 0)
		fmt.Fprintf(out, "ops=%d state=%s\n", len(ops), k.C.Snapshot(s1.Snap[0]).RoundState(sw.Round))
		if len(ops) == 0 {
			continue
		}
		c, apiErr, err := k.OperateOp(s1, 0, ops[0].ID, nil)
		fmt.Fprintln(out, apiErr, err)
		pm := c.Log[len(c.Log)-1]
		var req requests.SigningProposalBatchPartialSignRequests
		json.Unmarshal(pm.Data, &req)
		for _, ps := range req.PartialSigns {
			for _, t := range tasks {
				if t.MessageID == ps.MessageID {
					fmt.Fprintf(out, "%s verify=%v\n", ps.MessageID, tbls.Verify(oracle.Suite(), pubPoly, t.Payload, ps.Sign))
				}
			}
		}
	}
	return 0
}
