package checks

import (
	"fmt"

	"verif/mc/world"
)

func init() { Registry["dbg"] = dbg }

func dbg(tier string, args []string) int {
	out := world.RealStdout
	r := newRun("DBG", tier, "exploration")
	c := newCrashRun(r, 2, 2, 1)
	c.crashAt, c.crashPhase = []int{24}, []string{"post"}
	got, err := c.runCeremony(r, false)
	fmt.Fprintln(out, got, err, c.crashes)
	for _, l := range c.log {
		fmt.Fprintln(out, l)
	}
	for _, m := range c.w.Board.Log() {
		fmt.Fprintf(out, "%3d %-45s from=%-7s to=%-7s\n", m.Offset, m.Event, m.SenderAddr, m.RecipientAddr)
	}
	for i, n := range c.w.Nodes {
		fmt.Fprintf(out, "node %d offset %d pending %d\n", i, n.Offset(), len(n.PendingOps()))
		n.Log.Keep = true
	}
	return 0
}
