package checks

import (
	"crypto/ed25519"
	"encoding/json"
	"errors"
	"fmt"
	"regexp"
	"runtime/debug"
	"strings"
	"sync"

	"github.com/lidofinance/dc4bc/client/types"
	sif "github.com/lidofinance/dc4bc/fsm/state_machines/signing_proposal_fsm"
	"github.com/lidofinance/dc4bc/fsm/types/requests"
	"github.com/lidofinance/dc4bc/storage"

	"verif/mc/kit"
	"verif/mc/mut"
	"verif/mc/world"
)

func init() { Registry["C18"] = c18 }

var idxRe = regexp.MustCompile(`\[\d+\]`)

func pathClass(p string) string { return idxRe.ReplaceAllString(p, "[]") }

// newRounds lists round ids present in after but not in before.
func newRounds(before, after world.Snapshot) []string {
	var out []string
	b := before.Rounds()
	for id := range after.Rounds() {
		if _, ok := b[id]; !ok {
			out = append(out, id)
		}
	}
	return out
}

func c18(tier string, args []string) int {
	r := newRun("C18", tier, "exploration")
	r.Assume = []string{
		"mutants are re-signed with the sender's key so that they reach the code behind verification",
		"one mutation per input (catalogue in mc/mut); coverage-guided byte-level fuzzing of the quantifier is a sampling technique and is not done",
		"a panic inside an HTTP handler is recovered by net/http per connection and is reported only as information",
	}
	nt := ntPair{3, 2}
	rec := getRecording(r, nt.n, nt.t)
	// the three entry points are explored concurrently (separate nodes / machines / routers)
	classes := map[string]bool{}
	evals := 0
	parts := []func(*kit.Run, *world.Recording, string, map[string]bool, *int){c18Board, c18Airgapped, c18API}
	partClasses := make([]map[string]bool, len(parts))
	partEvals := make([]int, len(parts))
	var pwg sync.WaitGroup
	for i := range parts {
		partClasses[i] = map[string]bool{}
		pwg.Add(1)
		go func(i int) {
			defer pwg.Done()
			parts[i](r, rec, tier, partClasses[i], &partEvals[i])
		}(i)
	}
	pwg.Wait()
	for i := range parts {
		evals += partEvals[i]
		for c := range partClasses[i] {
			classes[c] = true
		}
	}
	r.Set("evaluations", evals)
	r.Set("distinct_nontrivial", len(classes))
	r.Set("rule", "every (state, genuine input, single structure-aware mutation) triple is executed on the real entry point (NodeService.ProcessMessage / Machine.ProcessOperation / the echo router) under recover(); distinct = (entry point, event or operation type, field path class, mutation kind)")
	return finish(r)
}

// ---------------------------------------------------------------------------------------------
// (A) board messages

func c18Board(r *kit.Run, rec *world.Recording, tier string, classes map[string]bool, evals *int) {
	w := rec.W
	views := []int{0, w.N - 1}
	if tier == "thorough" {
		views = []int{0, 1, 2}
	}
	senderKey := map[string]ed25519.PrivateKey{}
	for _, nd := range w.Nodes {
		senderKey[nd.Name] = nd.KeyPair.Priv
	}
	sampled := 0
	var vmu sync.Mutex
	var vwg sync.WaitGroup
	outerClasses, outerEvals := classes, evals
	for _, v := range views {
		v := v
		vwg.Add(1)
		go func() {
			defer vwg.Done()
			classes := map[string]bool{}
			n := 0
			evals := &n
			c18BoardView(r, rec, tier, v, senderKey, classes, evals, &vmu, &sampled)
			vmu.Lock()
			*outerEvals += n
			for c := range classes {
				outerClasses[c] = true
			}
			vmu.Unlock()
		}()
	}
	vwg.Wait()
}

func c18BoardView(r *kit.Run, rec *world.Recording, tier string, v int, senderKey map[string]ed25519.PrivateKey, classes map[string]bool, evals *int, vmu *sync.Mutex, sampledP *int) {
	w := rec.W
	{
		lab, err := NewLabFor(w, v)
		if err != nil {
			r.Infra("lab: %v", err)
		}
		var bases []baseState
		for _, bs := range baseStates(r, rec, lab, v) {
			if bs.Pre == "none" || bs.Pre == "cancelled-by-error" {
				bases = append(bases, bs)
			}
		}
		// a signing batch cancelled by error reports (more than n-t failures)
		for k := 0; k < len(rec.Snaps[v]); k++ {
			if rec.Snaps[v][k].RoundState(rec.Round) == string(sif.StateSigningAwaitPartialSigns) {
				var pre []storage.Message
				for p := 0; p <= w.N-w.T; p++ {
					er := requests.SignatureProposalConfirmationErrorRequest{ParticipantId: p, Error: requests.NewFSMError(errors.New("signing failed")), CreatedAt: world.T0}
					pre = append(pre, world.SignedMessage(rec.Round, string(sif.EventSigningPartialSignError), world.MustJSON(er), w.Nodes[p].Name, w.Nodes[p].KeyPair.Priv, ""))
				}
				bases = append(bases, baseState{View: v, K: k, Pre: "signing-cancelled-by-error", Raw: rec.Snaps[v][k], PreMs: pre})
				break
			}
		}
		// the first batch reconstructed from the others' answers while this node's own signing
		// operation is still pending (a slow operator): round idle again, operation in the pool
		for k := 1; k < len(rec.PreSnaps[v]) && k <= len(rec.Log); k++ {
			if rec.Log[k-1].Event != string(sif.EventSigningStart) || rec.PreSnaps[v][k] == nil {
				continue
			}
			var pre []storage.Message
			var bid struct{ BatchID string }
			_ = json.Unmarshal(rec.Log[k-1].Data, &bid)
			for _, m := range rec.Log[k:] {
				if m.Event != string(sif.EventSigningPartialSignReceived) || m.SenderAddr == w.Nodes[v].Name {
					continue
				}
				var ps struct{ BatchID string }
				if json.Unmarshal(m.Data, &ps) == nil && ps.BatchID == bid.BatchID {
					pre = append(pre, m)
				}
			}
			if len(pre) >= w.T {
				bases = append(bases, baseState{View: v, K: k, Pre: "own-answer-outstanding", Raw: rec.PreSnaps[v][k], PreMs: pre})
			}
			break
		}
		// reinitialisation messages (unauthenticated by design) with odd round ids, offered in every
		// base state: refused ones must leave nothing behind
		var reinits []mutant
		for _, id := range []string{"", " ", "\t", "\n ", "x", strings.Repeat("9", 64)} {
			var parts []types.Participant
			for pi, nd := range w.Nodes {
				parts = append(parts, types.Participant{DKGPubKey: w.Airs[pi].PubKeyBytes(), OldCommPubKey: nd.KeyPair.Pub, NewCommPubKey: nd.KeyPair.Pub, Name: nd.Name})
			}
			re := types.ReDKG{DKGID: id, Threshold: w.T, Participants: parts, Messages: replayedWithPatches(w, id)}
			reinits = append(reinits, mutant{Label: fmt.Sprintf("reinit/round-id-%q", id), Msg: storage.Message{DkgRoundID: id, Event: string(types.ReinitDKG), Data: world.MustJSON(re), SenderAddr: "anyone"}})
			if len(id) == 64 {
				// ... and one whose replay opens no round at all (no messages), or stops after the proposal
				for cut, name := range []string{"no-messages", "proposal-only"} {
					id2 := strings.Repeat(fmt.Sprint(7+cut), 64)
					re2 := types.ReDKG{DKGID: id2, Threshold: w.T, Participants: parts, Messages: replayedWithPatches(w, id2)[:cut]}
					reinits = append(reinits, mutant{Label: "reinit/" + name, Msg: storage.Message{DkgRoundID: id2, Event: string(types.ReinitDKG), Data: world.MustJSON(re2), SenderAddr: "anyone"}})
				}
			}
		}
		for _, bs := range bases {
			if r.TimeUp() {
				return
			}
			bs.Snap = bs.Materialize(lab)
			for _, mu := range reinits {
				err, after, _ := lab.Step(bs.Snap, mu.Msg)
				*evals++
				classes["board|reinit_dkg|"+mu.Label] = true
				trace := map[string]interface{}{"entry": "NodeService.ProcessMessage", "base": bs.String(), "event": "reinit_dkg", "mutation": mu.Label}
				if pe, ok := err.(*PanicError); ok {
					r.Violation("C18/panic/board/"+pe.Site, fmt.Sprintf("ProcessMessage panicked (in %s) in state %s on a reinit message with %s: %v", pe.Site, bs, mu.Label, pe.V), trace)
				} else if err == nil {
					// an accepted reinit message leaves an operation for the operator: what the machine
					// answers to it ("processed") goes back through the node's API
					for _, op := range lab.Node.PendingOps() {
						if string(op.Type) != string(types.ReinitDKG) {
							continue
						}
						res := *op
						res.Event = types.OperationProcessed
						res.ExtraData = []byte("extra")
						kit.Mark(fmt.Sprintf("NodeService API in %s after %s: processed result of the reinit operation", bs, mu.Label))
						func() {
							defer func() {
								if x := recover(); x != nil {
									site := PanicSite(debug.Stack())
									r.Violation("C18/panic/api-after-reinit/"+site, fmt.Sprintf("in %s, after the accepted reinit message (%s), the machine's answer to the reinit operation made the node's API panic (in %s): %v", bs, mu.Label, site, x), trace)
								}
							}()
							_ = lab.Node.SubmitResult(&res)
						}()
						*evals++
					}
				} else if err != nil {
					if ch := changedProtected(bs.Snap, after); len(ch) > 0 {
						r.Violation("C18/rejected-but-changed/board/reinit/"+strings.Join(classOfChanges(ch), "+"), fmt.Sprintf("in %s the rejected reinit message (%s) changed durable state: %v (error: %v)", bs, mu.Label, ch, err), trace)
					} else if nr := newRounds(bs.Snap, after); len(nr) > 0 {
						r.Violation("C18/rejected-but-changed/board/reinit/new-round", fmt.Sprintf("in %s the rejected reinit message (%s) left a new round %q behind (error: %v)", bs, mu.Label, nr[0], err), trace)
					}
				}
			}
			bs.Phase = bs.Snap.RoundState(rec.Round)
			// the next genuine message and the most recent message of up to 3 other event types
			cands := []int{}
			if bs.K < len(rec.Log) {
				cands = append(cands, bs.K)
			}
			seenEv := map[string]bool{}
			for j := bs.K - 1; j >= 0 && len(seenEv) < 3; j-- {
				if !seenEv[rec.Log[j].Event] {
					seenEv[rec.Log[j].Event] = true
					cands = append(cands, j)
				}
			}
			for _, j := range cands {
				g := rec.Log[j]
				if !addressed(rec, v, g) {
					continue
				}
				priv := senderKey[g.SenderAddr]
				var muts []mutant
				for _, m := range mut.Mutants(g.Data, 1) {
					mm := g
					mm.Data = m.Doc
					mm.Signature = ed25519.Sign(priv, mm.Bytes())
					muts = append(muts, mutant{Label: pathClass(m.Path) + "/" + m.Kind, Msg: mm})
				}
				if tier == "thorough" {
					// pairs of mutations at two different positions (a small kind set)
					small := map[string]bool{"delete": true, "null": true, "minus-one": true, "int63": true, "empty-array": true, "empty-string": true, "as-string": true, "with-null-element": true, "as-object": true}
					for _, m1 := range mut.Mutants(g.Data, 0) {
						if !small[m1.Kind] {
							continue
						}
						for _, m2 := range mut.Mutants(m1.Doc, 0) {
							if !small[m2.Kind] || m2.Path == m1.Path || m2.Path == "" || m1.Path == "" {
								continue
							}
							mm := g
							mm.Data = m2.Doc
							mm.Signature = ed25519.Sign(priv, mm.Bytes())
							muts = append(muts, mutant{Label: pathClass(m1.Path) + "/" + m1.Kind + "+" + pathClass(m2.Path) + "/" + m2.Kind, Msg: mm})
						}
					}
				}
				// the genuine message once more, byte for byte (anyone can append a copy)
				muts = append(muts, mutant{Label: "unchanged-copy", Msg: g})
				for _, ev := range []string{"", "event_unknown", string(types.ReinitDKG), string(sif.EventSigningRestart)} {
					mm := g
					mm.Event = ev
					muts = append(muts, mutant{Label: "envelope.event/" + ev, Msg: mm})
				}
				for _, rid := range []string{"", "x", "abcd", strings.Repeat("f", 64), " "} {
					mm := g
					mm.DkgRoundID = rid
					muts = append(muts, mutant{Label: fmt.Sprintf("envelope.round/%q", rid), Msg: mm})
				}
				for _, mu := range muts {
					kit.Mark(fmt.Sprintf("NodeService.ProcessMessage in %s: %s with %s; data: %.600s", bs, g.Event, mu.Label, mu.Msg.Data))
					err, after, _ := lab.Step(bs.Snap, mu.Msg)
					*evals++
					cls := fmt.Sprintf("board|%s|%s", g.Event, mu.Label)
					classes[cls] = true
					trace := map[string]interface{}{"entry": "NodeService.ProcessMessage", "base": bs.String(), "genuine_offset": j, "event": g.Event, "mutation": mu.Label}
					vmu.Lock()
					if *sampledP < 2 {
						*sampledP++
						r.Sample(trace)
					}
					vmu.Unlock()
					if pe, ok := err.(*PanicError); ok {
						r.Violation("C18/panic/board/"+pe.Site, fmt.Sprintf("ProcessMessage panicked (in %s) in state %s on %s with %s: %v", pe.Site, bs, g.Event, mu.Label, pe.V), trace)
						continue
					}
					if err == nil {
						// the mutant was accepted: whatever it left in the round, the genuine
						// messages that follow on the board must not crash the node either
						cur, fed := after, 0
						for f := j + 1; f < len(rec.Log) && fed < 2*w.N+2; f++ {
							if !addressed(rec, v, rec.Log[f]) {
								continue
							}
							fed++
							ferr, fafter, _ := lab.Step(cur, rec.Log[f])
							*evals++
							if pe, ok := ferr.(*PanicError); ok {
								tr := map[string]interface{}{"entry": "NodeService.ProcessMessage", "base": bs.String(), "first": fmt.Sprintf("%s (offset %d) with %s, accepted", g.Event, j, mu.Label), "then": fmt.Sprintf("genuine %s of %s (offset %d)", rec.Log[f].Event, rec.Log[f].SenderAddr, f)}
								r.Violation("C18/panic/board-followup/"+pe.Site, fmt.Sprintf("after %s with %s was accepted in %s, the genuine %s of %s (offset %d) panicked ProcessMessage (in %s): %v", g.Event, mu.Label, bs, rec.Log[f].Event, rec.Log[f].SenderAddr, f, pe.Site, pe.V), tr)
								break
							}
							cur = fafter
						}
					}
					if err != nil {
						ch := changedProtected(bs.Snap, after)
						if len(ch) > 0 {
							r.Violation("C18/rejected-but-changed/board/"+bs.Pre+"/"+strings.Join(classOfChanges(ch), "+"), fmt.Sprintf("in %s the rejected message %s (%s) changed durable state: %v (error: %v)", bs, g.Event, mu.Label, ch, err), trace)
						} else if nr := newRounds(bs.Snap, after); len(nr) > 0 {
							r.Violation("C18/rejected-but-changed/board/phantom-round", fmt.Sprintf("in %s the rejected message %s (%s) left a new round %q behind (error: %v)", bs, g.Event, mu.Label, nr[0], err), trace)
						}
					}
				}
			}
		}
		lab.Node.Stop()
	}
}

func classOfChanges(ch []string) []string {
	m := map[string]bool{}
	for _, c := range ch {
		switch {
		case strings.HasPrefix(c, "round:"):
			m["round"] = true
		case strings.HasPrefix(c, "signatures_") || strings.HasPrefix(c, "+signatures_"):
			m["signatures"] = true
		case strings.Contains(c, "deleted_operations"):
			m["tombstones"] = true
		case strings.Contains(c, "operations"):
			m["operations"] = true
		default:
			m["other"] = true
		}
	}
	return world.SortedKeys(m)
}

// ---------------------------------------------------------------------------------------------
// (B) operation files fed to the airgapped machine
