package checks

import (
	"bytes"
	"encoding/json"
	"errors"
	"fmt"
	"sort"
	"strings"
	"sync"
	"time"

	"github.com/lidofinance/dc4bc/client/services/fsmservice"
	"github.com/lidofinance/dc4bc/client/types"
	"github.com/lidofinance/dc4bc/fsm/fsm"
	"github.com/lidofinance/dc4bc/fsm/state_machines"
	dpf "github.com/lidofinance/dc4bc/fsm/state_machines/dkg_proposal_fsm"
	spf "github.com/lidofinance/dc4bc/fsm/state_machines/signature_proposal_fsm"
	sif "github.com/lidofinance/dc4bc/fsm/state_machines/signing_proposal_fsm"
	"github.com/lidofinance/dc4bc/fsm/types/requests"

	"verif/mc/kit"
	"verif/mc/world"
	"verif/mc/xsearch"
)

func init() { Registry["C19"] = c19 }

type fsmInput struct {
	Label string
	Event fsm.Event
	Req   interface{}
}

type st19 struct {
	Dump []byte
	// how the state was reached, for the in-memory continuation: the dump at the last machine
	// hand-over (nil = the round's creation) and every event applied since then. The live side
	// is one instance that was never dumped and restored since that point.
	Anchor []byte
	Since  []*fsmInput
}

func c19(tier string, args []string) int {
	r := newRun("C19", tier, "model_checking")
	cfgs := allNT(2, 3)
	cfgs = append(cfgs, ntPair{4, 3})
	if tier == "thorough" {
		cfgs = allNT(2, 4)
	}
	r.Assume = []string{"round FSM API (state_machines.Create/FromDump/Do/Dump) driven directly; contributions opaque"}
	totS, totT := 0, 0
	var per []string
	for _, nt := range cfgs {
		if r.TimeUp() {
			break
		}
		s, t, info := explore19(r, nt.n, nt.t)
		totS += s
		totT += t
		per = append(per, fmt.Sprintf("n=%d t=%d: states=%d paired_transitions=%d %s", nt.n, nt.t, s, t, info))
	}
	r.Set("states", totS)
	r.Set("transitions", totT)
	r.Set("traces_validated_against_impl", totT)
	r.Set("explorations", per)
	r.Set("rule", "BFS over every round dump reachable through the FSM API with the public alphabet of C05 plus hand-over and signing events; for every reachable dump D (reached from P by e) and every next event e': FromDump(D).Do(e') is compared with the in-memory continuation FromDump(P).Do(e).Do(e') (error-ness, response state and data, resulting dump); every reachable dump must be restorable and listable through FSMService.GetFSMList next to a healthy round")
	return finish(r)
}

// child19 extends the live path; a hand-over state starts a new live instance (as the product does).
func child19(cur *st19, dump []byte, state fsm.State, via *fsmInput) *st19 {
	if handOver[state] {
		return &st19{Dump: dump, Anchor: dump}
	}
	return &st19{Dump: dump, Anchor: cur.Anchor, Since: append(append([]*fsmInput(nil), cur.Since...), via)}
}

var handOver = map[fsm.State]bool{spf.StateSignatureProposalCollected: true, dpf.StateDkgMasterKeyCollected: true}

// canonData renders response data with top-level lists sorted: several responses are built by
// ranging over a Go map (participants in arbitrary order), which is the same for a live and a
// restored round; order-dependence of what is persisted or sent is C08's subject.
func canonData(v interface{}) string {
	bz, _ := json.Marshal(v)
	var arr []json.RawMessage
	if json.Unmarshal(bz, &arr) == nil && arr != nil {
		ss := make([]string, len(arr))
		for i, a := range arr {
			ss[i] = string(a)
		}
		sort.Strings(ss)
		out, _ := json.Marshal(ss)
		return string(out)
	}
	return string(bz)
}

func explore19(r *kit.Run, n, t int) (int, int, string) {
	lab, err := NewLab(n, t, 0)
	if err != nil {
		r.Infra("lab: %v", err)
	}
	defer lab.Node.Stop()
	var alphabet []fsmInput
	initReq, _ := types.FSMRequestFromMessage(lab.Init)
	alphabet = append(alphabet, fsmInput{"event_sig_proposal_init", spf.EventInitProposal, initReq})
	for _, in := range lab.DKGAlphabet() {
		if in.Variant == "outside" || in.Variant == "again" || in.PID == -1 {
			continue
		}
		if in.Fail && in.Variant == "late" {
			continue // (C05's late-stamped failure reports: the same transitions as the in-time ones here)
		}
		req, err := types.FSMRequestFromMessage(in.Msg)
		if err != nil {
			continue
		}
		alphabet = append(alphabet, fsmInput{in.Label, in.Event, req})
	}
	def := requests.DefaultRequest{CreatedAt: world.T0}
	alphabet = append(alphabet,
		fsmInput{"event_dkg_init_process", dpf.EventDKGInitProcess, def},
		fsmInput{"event_signing_init", sif.EventSigningInit, def},
		fsmInput{"event_signing_restart", sif.EventSigningRestart, def},
	)
	// timestamps at the end of the calendar: the deadline computed from them (CreatedAt + 7 days)
	// lies in the year 10000, which the dump's JSON encoding cannot express
	farFuture := time.Date(9999, 12, 28, 0, 0, 0, 0, time.UTC)
	if lr, ok := initReq.(requests.SignatureProposalParticipantsListRequest); ok {
		lr.CreatedAt = farFuture
		alphabet = append(alphabet, fsmInput{"event_sig_proposal_init[created in 9999]", spf.EventInitProposal, lr})
	}
	alphabet = append(alphabet,
		fsmInput{"event_dkg_init_process[created in 9999]", dpf.EventDKGInitProcess, requests.DefaultRequest{CreatedAt: farFuture}},
		fsmInput{"event_signing_init[created in 9999]", sif.EventSigningInit, requests.DefaultRequest{CreatedAt: farFuture}},
	)
	for _, b := range []string{"batch-1", "batch-2"} {
		alphabet = append(alphabet, fsmInput{"event_signing_start[" + b + "]", sif.EventSigningStart, requests.SigningBatchProposalStartRequest{BatchID: b, ParticipantId: 0, CreatedAt: world.T0, SigningTasks: []requests.SigningTask{{MessageID: b + "-m", File: "f", Payload: []byte(b)}}}})
		for p := 0; p < n; p++ {
			alphabet = append(alphabet, fsmInput{fmt.Sprintf("event_signing_partial_sign_received[p=%d,%s]", p, b), sif.EventSigningPartialSignReceived, requests.SigningProposalBatchPartialSignRequests{BatchID: b, ParticipantId: p, PartialSigns: []requests.PartialSign{{MessageID: b + "-m", Sign: []byte(fmt.Sprintf("sig-%d-%s", p, b))}}, CreatedAt: world.T0}})
		}
	}
	for p := 0; p < n; p++ {
		alphabet = append(alphabet, fsmInput{fmt.Sprintf("event_signing_partial_sign_error_received[p=%d]", p), sif.EventSigningPartialSignError, requests.SignatureProposalConfirmationErrorRequest{ParticipantId: p, Error: requests.NewFSMError(errors.New("x")), CreatedAt: world.T0}})
	}

	round := lab.Round
	first, err := state_machines.Create(round)
	if err != nil {
		r.Infra("Create: %v", err)
	}
	d0, _ := first.Dump()
	init := &xsearch.St{Key: string(d0), Data: &st19{Dump: d0}}
	var mu sync.Mutex
	stateNames := map[string][]byte{}
	unrestorable := map[string]bool{}
	sampled := 0

	type outcome struct {
		errd  bool
		state fsm.State
		data  string
		dump  string
		emsg  string
	}
	run := func(i *state_machines.FSMInstance, in fsmInput) (o outcome) {
		defer func() {
			if rec := recover(); rec != nil {
				o = outcome{errd: true, emsg: fmt.Sprintf("PANIC %v", rec)}
			}
		}()
		resp, dump, err := i.Do(in.Event, in.Req)
		o.errd = err != nil
		if err != nil {
			o.emsg = err.Error()
		}
		if resp != nil {
			o.state = resp.State
			o.data = canonData(resp.Data)
		}
		o.dump = string(dump)
		return o
	}
	restore := func(d []byte) (i *state_machines.FSMInstance, err error) {
		defer func() {
			if rec := recover(); rec != nil {
				err = fmt.Errorf("PANIC %v", rec)
			}
		}()
		return state_machines.FromDump(d)
	}

	// afterRefusal: a refused event must leave the round held in memory as it was - it can still
	// be saved, the saved form is the one it had before, and it answers the next event as a
	// round restored from that form does (the follow-up is the alphabet's next element, so that
	// every event is a follow-up of every other somewhere in the exploration)
	afterRefusal := func(b *state_machines.FSMInstance, cur *st19, state fsm.State, idx int, tr interface{}) {
		in := alphabet[idx]
		d, err := b.Dump()
		if err != nil {
			r.Violation("C19/refused-event-damages-live-round/"+string(in.Event), fmt.Sprintf("in %s, after the refused event %s the round held in memory cannot be dumped: %v", state, in.Label, err), tr)
			return
		}
		if string(d) != string(cur.Dump) {
			var dd state_machines.FSMDump
			_ = json.Unmarshal(d, &dd)
			r.Violation("C19/refused-event-damages-live-round/"+string(in.Event), fmt.Sprintf("in %s, after the refused event %s the round held in memory dumps differently than before the event (state in the dump: %q)", state, in.Label, dd.State), tr)
			return
		}
		in2 := alphabet[(idx+1)%len(alphabet)]
		a2, err := restore(cur.Dump)
		if err != nil {
			return
		}
		o1, o2 := run(a2, in2), run(b, in2)
		if o1.errd != o2.errd || o1.state != o2.state || o1.data != o2.data || (!o1.errd && o1.dump != o2.dump) {
			r.Violation("C19/restored-differs-from-live-after-refusal/"+string(in2.Event), fmt.Sprintf("in %s, after the refused event %s, the event %s: restored round -> err=%v(%s) state=%s ; live round -> err=%v(%s) state=%s", state, in.Label, in2.Label, o1.errd, o1.emsg, o1.state, o2.errd, o2.emsg, o2.state), tr)
		}
	}

	next := func(w int, s *xsearch.St) ([]*xsearch.St, error) {
		cur := s.Data.(*st19)
		var dd state_machines.FSMDump
		_ = json.Unmarshal(cur.Dump, &dd)
		mu.Lock()
		if _, ok := stateNames[string(dd.State)]; !ok {
			stateNames[string(dd.State)] = cur.Dump
		}
		mu.Unlock()
		trace := func(l string) interface{} { return append(s.Trace(), l) }
		if _, err := restore(cur.Dump); err != nil {
			mu.Lock()
			unrestorable[string(dd.State)] = true
			mu.Unlock()
			r.Violation("C19/not-restorable/"+string(dd.State), fmt.Sprintf("a round that reached %s cannot be loaded back: %v", dd.State, err), s.Trace())
			return nil, nil
		}
		var out []*xsearch.St
		for idx := range alphabet {
			in := alphabet[idx]
			a, err := restore(cur.Dump)
			if err != nil {
				return nil, err
			}
			o1 := run(a, in)
			if !o1.errd && o1.dump == "" {
				r.Violation("C19/accepted-event-leaves-no-dump/"+string(in.Event), fmt.Sprintf("in %s the event %s is accepted (no error, new state %s) but the round it leads to cannot be saved: Do returns an empty dump", dd.State, in.Label, o1.state), trace(in.Label))
			}
			// in-memory continuation. A hand-over state (the exit state of one machine that is the
			// entry state of the next) has no live continuation in the product: the node switches
			// machines by FromDump ("switch FSM state by hand"), so the live side is rebuilt the
			// same way there.
			var b *state_machines.FSMInstance
			if handOver[dd.State] {
				b, err = restore(cur.Dump)
				if err != nil {
					return nil, err
				}
				o2 := run(b, in)
				if o1.errd != o2.errd || o1.state != o2.state || o1.data != o2.data || (!o1.errd && o1.dump != o2.dump) {
					r.Violation("C19/nondeterministic-transition", fmt.Sprintf("in %s the event %s gave two different results from the same dump", dd.State, in.Label), trace(in.Label))
				}
				if o2.errd && !strings.HasPrefix(o2.emsg, "PANIC") {
					afterRefusal(b, cur, dd.State, idx, trace(in.Label))
				}
				if o1.errd || o1.dump == "" {
					out = append(out, &xsearch.St{Key: s.Key, Data: cur, Via: in.Label})
				} else {
					out = append(out, &xsearch.St{Key: o1.dump, Data: child19(cur, []byte(o1.dump), o1.state, &alphabet[idx]), Via: in.Label})
				}
				continue
			}
			if cur.Anchor == nil {
				b, err = state_machines.Create(round)
			} else {
				b, err = restore(cur.Anchor)
			}
			if err != nil {
				return nil, fmt.Errorf("cannot rebuild in-memory instance: %v", err)
			}
			diverged := false
			last := ""
			for _, step := range cur.Since {
				pre := run(b, *step)
				if pre.errd {
					diverged = true
					break
				}
				last = pre.dump
			}
			if len(cur.Since) > 0 && (diverged || last != string(cur.Dump)) {
				r.Violation("C19/nondeterministic-transition", fmt.Sprintf("repeating the path to %s in memory gave a different dump", dd.State), s.Trace())
				continue
			}
			o2 := run(b, in)
			if o1.errd != o2.errd || o1.state != o2.state || o1.data != o2.data || (!o1.errd && o1.dump != o2.dump) {
				r.Violation("C19/restored-differs-from-live/"+string(dd.State)+"/"+string(in.Event),
					fmt.Sprintf("in %s the event %s: restored round -> err=%v(%s) state=%s ; live round -> err=%v(%s) state=%s ; data equal=%v dump equal=%v",
						dd.State, in.Label, o1.errd, o1.emsg, o1.state, o2.errd, o2.emsg, o2.state, o1.data == o2.data, o1.dump == o2.dump), trace(in.Label))
			}
			if o2.errd && !strings.HasPrefix(o2.emsg, "PANIC") {
				afterRefusal(b, cur, dd.State, idx, trace(in.Label))
			}
			if o1.errd || o1.dump == "" {
				out = append(out, &xsearch.St{Key: s.Key, Data: cur, Via: in.Label})
				continue
			}
			c := child19(cur, []byte(o1.dump), o1.state, &alphabet[idx])
			out = append(out, &xsearch.St{Key: o1.dump, Data: c, Via: in.Label})
			mu.Lock()
			if sampled < 2 && o1.state == sif.StateSigningPartialSignsCollected {
				sampled++
				r.Sample(map[string]interface{}{"n": n, "t": t, "trace_to_collected": append(s.Trace(), in.Label)})
			}
			mu.Unlock()
		}
		return out, nil
	}
	res, err := xsearch.BFS(init, xsearch.Opts{Workers: 16, Stop: r.TimeUp}, next)
	if err != nil {
		r.Infra("exploration n=%d t=%d: %v", n, t, err)
	}
	if res.Stopped || res.Capped {
		r.Cap(fmt.Sprintf("n=%d t=%d stopped early", n, t))
	}
	// listing: every reachable state name stored next to a healthy round
	healthy := d0
	listed := 0
	for name, dump := range stateNames {
		st := world.NewMemState(world.Topic)
		svc := fsmservice.NewFSMService(st, lab.Board.NewHandle(), world.Topic)
		if err := svc.SaveFSM("healthy-round", healthy); err != nil {
			r.Infra("SaveFSM: %v", err)
		}
		if err := svc.SaveFSM(round, dump); err != nil {
			r.Infra("SaveFSM: %v", err)
		}
		list, err := svc.GetFSMList()
		listed++
		if err != nil {
			r.Violation("C19/listing-fails/"+name, fmt.Sprintf("with a round in %s stored, listing all rounds fails: %v", name, err), map[string]string{"state": name})
			continue
		}
		if list[round] != name || list["healthy-round"] != string(fsm.StateGlobalIdle) {
			r.Violation("C19/listing-wrong/"+name, fmt.Sprintf("listing reports %v", list), map[string]string{"state": name})
		}
	}
	r.Add("distinct_state_names_listed", listed)
	// a round that grows large: from a signing-ready dump, a batch whose answers carry 600 KiB each
	// (a long baked range does that): every dump on the way - well over a megabyte - must restore,
	// and the restored round must answer the next event like the one continued in memory
	if ready, ok := stateNames[string(sif.StateSigningIdle)]; ok {
		bulk := []fsmInput{{"event_signing_start[bulky batch]", sif.EventSigningStart, requests.SigningBatchProposalStartRequest{BatchID: "bulky", ParticipantId: 0, CreatedAt: world.T0, SigningTasks: []requests.SigningTask{{MessageID: "bulky-m", File: "f", Payload: []byte("bulky")}}}}}
		for p := 0; p < n; p++ {
			bulk = append(bulk, fsmInput{fmt.Sprintf("event_signing_partial_sign_received[p=%d, 600 KiB]", p), sif.EventSigningPartialSignReceived, requests.SigningProposalBatchPartialSignRequests{BatchID: "bulky", ParticipantId: p, PartialSigns: []requests.PartialSign{{MessageID: "bulky-m", Sign: bytes.Repeat([]byte{byte('a' + p)}, 600<<10)}}, CreatedAt: world.T0}})
		}
		cur := ready
		live, err := restore(cur)
		if err != nil {
			r.Infra("the signing-ready dump does not restore: %v", err)
		}
		var path []string
		maxDump := 0
		for _, in := range bulk {
			path = append(path, in.Label)
			rest, rerr := restore(cur)
			if rerr != nil {
				r.Violation("C19/not-restorable/large-round", fmt.Sprintf("a round dump of %d bytes (after %v) cannot be restored: %v", len(cur), path[:len(path)-1], rerr), map[string]interface{}{"path": path, "dump_bytes": len(cur)})
				break
			}
			o1, o2 := run(rest, in), run(live, in)
			if o1.errd != o2.errd || o1.state != o2.state || o1.data != o2.data || o1.dump != o2.dump {
				r.Violation("C19/restored-differs-from-live/large-round", fmt.Sprintf("after %v the restored round answers %s differently from the round continued in memory (error %v/%v, state %s/%s)", path[:len(path)-1], in.Label, o1.errd, o2.errd, o1.state, o2.state), map[string]interface{}{"path": path})
				break
			}
			if o1.errd || o1.dump == "" {
				continue // (the t-th answer hands over to the collected state; later ones are refused)
			}
			cur = []byte(o1.dump)
			if len(cur) > maxDump {
				maxDump = len(cur)
			}
			// (the node restores before every message; the live side does so at the hand-over too)
			if nl, lerr := restore(cur); lerr == nil && fsm.State(o1.state) != sif.StateSigningAwaitPartialSigns {
				live = nl
			}
		}
		mu.Lock()
		r.Set(fmt.Sprintf("largest_round_dump_bytes_n%d_t%d", n, t), maxDump)
		mu.Unlock()
	}
	return res.States, res.Transitions, fmt.Sprintf("state_names=%d alphabet=%d", len(stateNames), len(alphabet))
}
