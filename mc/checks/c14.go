package checks

import (
	"encoding/json"
	"fmt"
	"os"
	"regexp"
	"sort"
	"strings"

	"github.com/lidofinance/dc4bc/client/api/dto"
	"github.com/lidofinance/dc4bc/client/modules/keystore"
	"github.com/lidofinance/dc4bc/client/types"
	"github.com/lidofinance/dc4bc/fsm/fsm"
	spf "github.com/lidofinance/dc4bc/fsm/state_machines/signature_proposal_fsm"
	"github.com/lidofinance/dc4bc/storage"
	"github.com/lidofinance/dc4bc/verifshim/vsched"

	"verif/mc/kit"
	"verif/mc/sched"
	"verif/mc/world"
)

func init() { Registry["C14"] = c14 }

// c14Scenario: one node state, the board messages it has not consumed yet, one API request.
type c14Scenario struct {
	Name   string
	View   int
	Base   world.Snapshot
	Log    []storage.Message // board content (the node's offset is behind its end)
	API    func(nd *world.Node) error
	APITag string
	// identity override (scenarios not taken from the standard recording)
	Name2 string
	Key   *keystore.KeyPair
	// Other, when set, is the second activity instead of the poll tick (a second API request),
	// and Prop the property the scenario is judged for (default C14)
	Other     func(nd *world.Node) error
	OtherName string
	Prop      string
}

// genuineResults computes the machines' genuine results for every operation of the recorded
// ceremony, keyed "<node>|<operation id>".
func genuineResults(r *kit.Run, rec *world.Recording) map[string]*types.Operation {
	results := map[string]*types.Operation{}
	for v := 0; v < rec.W.N; v++ {
		ops := machineOps(r, rec, v)
		for k := range ops {
			a, err := freshMachineAt(rec, v, ops, k)
			if err != nil {
				r.Infra("machine: %v", err)
			}
			o := ops[k]
			res, err := a.Process(&o)
			a.Close()
			os.RemoveAll(a.Dir)
			if err != nil {
				r.Infra("result: %v", err)
			}
			results[fmt.Sprintf("%d|%s", v, o.ID)] = res
		}
	}
	return results
}

// duplicateSubmissionScenarios: the same answer submitted twice AT THE SAME TIME (the HTTP API
// serves requests concurrently; a retry, a double click): one scenario per operation type.
func duplicateSubmissionScenarios(r *kit.Run, rec *world.Recording) []c14Scenario {
	results := genuineResults(r, rec)
	var out []c14Scenario
	seenType := map[string]bool{}
	for v := 0; v < rec.W.N; v++ {
		for k, sn := range rec.PreSnaps[v] {
			pool, del := sn.RawOps()
			for id, o := range pool {
				if _, d := del[id]; d || seenType[string(o.Type)] {
					continue
				}
				id := id
				var submit func(nd *world.Node) error
				if fsm.State(o.Type) == spf.StateAwaitParticipantsConfirmations {
					submit = func(nd *world.Node) error {
						return nd.Svc.ApproveParticipation(&dto.OperationIdDTO{OperationID: id})
					}
				} else {
					res := results[fmt.Sprintf("%d|%s", v, id)]
					if res == nil {
						continue
					}
					submit = func(nd *world.Node) error { return nd.SubmitResult(cloneOp15(res)) }
				}
				seenType[string(o.Type)] = true
				out = append(out, c14Scenario{Prop: "C15", View: v, Base: sn, Log: append([]storage.Message{}, rec.Log[:k]...),
					API: submit, Other: submit, OtherName: "api-again", APITag: "duplicate-submission:" + string(o.Type),
					Name: fmt.Sprintf("node%d@%d the answer to %s submitted twice at the same time", v, k, o.Type)})
			}
		}
	}
	return out
}

var boardIDRe14 = regexp.MustCompile(`"id":"[^"]*","dkg_round_id":"([^"]*)","offset":\d+`)

// outcome14 renders the durable result of an execution in canonical form.
func outcome14(nd *world.Node, mem *world.MemState, board *world.Board, baseLen int) string {
	sn := mem.Snapshot()
	out := map[string]interface{}{}
	pend, _ := nd.Ops.GetOperations()
	ids := make([]string, 0, len(pend))
	for id := range pend {
		ids = append(ids, id)
	}
	sort.Strings(ids)
	out["pending"] = ids
	_, del := sn.RawOps()
	var dids []string
	for id := range del {
		dids = append(dids, id)
	}
	sort.Strings(dids)
	out["retired"] = dids
	rounds := map[string]string{}
	for id, raw := range sn.Rounds() {
		rounds[id] = string(raw)
	}
	out["rounds"] = rounds
	sigs := map[string]string{}
	for k, v := range sn {
		if strings.HasPrefix(k, "signatures_") {
			sigs[k] = v
		}
	}
	out["signatures"] = sigs
	out["offset"] = sn[world.OffsetKeyS]
	var app []string
	for _, m := range board.Log()[baseLen:] {
		data := m.Data
		if m.Event == "signature_reconstructed" {
			// the node lists reconstructed signatures in Go map order: compare as a sorted list
			var l []json.RawMessage
			if json.Unmarshal(data, &l) == nil {
				ss := make([]string, len(l))
				for i := range l {
					ss[i] = string(l[i])
				}
				sort.Strings(ss)
				data = []byte(strings.Join(ss, ","))
			}
		}
		app = append(app, fmt.Sprintf("%s|%s|%x", m.Event, m.RecipientAddr, data))
	}
	out["appended"] = app
	bz, _ := json.Marshal(out)
	return string(bz)
}

func c14(tier string, args []string) int {
	r := newRun("C14", tier, "exploration")
	bound := 2
	if tier == "thorough" {
		bound = 3
	}
	r.Assume = []string{
		"two logical threads: one real Poll() tick over the 1..3 unconsumed board messages, and one API request; scheduling points at every state-store operation (Get/Set/Delete/GetOrError/LoadOffset/SaveOffset/Reset), every board Send/GetMessages and every lock of the node packages; pre-emption bound " + fmt.Sprint(bound),
		"every execution runs on a node process built anew over the restored store (cold), and once more after the operator listed operations and rounds (warm)", "scenarios are generated from the recorded ceremony: every (node, pending operation, unconsumed messages of other participants) triple, plus a state reset and a reinitialisation completion",
		"the state store is the harness MemState behind a hooking wrapper (one State call = one atomic step, as with LevelDBState's per-call mutex)",
	}
	rec := getRecording(r, 3, 2)
	var scenarios []c14Scenario
	// genuine results per (node, op id)
	results := genuineResults(r, rec)
	for v := 0; v < rec.W.N; v++ {
		name := rec.W.Nodes[v].Name
		seen := map[string]bool{}
		for k, sn := range rec.PreSnaps[v] {
			pool, del := sn.RawOps()
			for id, o := range pool {
				if _, d := del[id]; d || seen[id] {
					continue
				}
				// unconsumed messages: what the other participants posted after position k
				var next []storage.Message
				for j := k; j < len(rec.Log) && len(next) < 3; j++ {
					m := rec.Log[j]
					if m.SenderAddr == name {
						break
					}
					next = append(next, m)
				}
				seen[id] = true
				id, o := id, o
				sc := c14Scenario{View: v, Base: sn, Log: rec.Log[:k+len(next)]}
				if fsm.State(o.Type) == spf.StateAwaitParticipantsConfirmations {
					sc.APITag = "approve-participation"
					sc.API = func(nd *world.Node) error {
						return nd.Svc.ApproveParticipation(&dto.OperationIdDTO{OperationID: id})
					}
				} else {
					res := results[fmt.Sprintf("%d|%s", v, id)]
					if res == nil {
						continue
					}
					sc.APITag = "submit-result:" + string(o.Type)
					sc.API = func(nd *world.Node) error { return nd.SubmitResult(cloneOp15(res)) }
				}
				sc.Name = fmt.Sprintf("node%d@%d %s || one poll tick (%d unconsumed message(s) of others + whatever the request posts in time)", v, k, sc.APITag, len(next))
				scenarios = append(scenarios, sc)
			}
		}
		// a request about one round while the poller handles the opening proposal of ANOTHER
		// round (which puts an operation of that round into the same pool): the stores are shared
		// by all rounds, whatever a lock is keyed on
		{
			idx := make([]int, rec.W.N)
			for i := range idx {
				idx[i] = i
			}
			req2 := rec.W.InitProposal(rec.W.T, idx)
			req2.CreatedAt = world.T0.Add(7)
			payload := world.MustJSON(req2)
			second := world.SignedMessage(world.RoundID(payload), string(spf.EventInitProposal), payload, rec.W.Nodes[(v+1)%rec.W.N].Name, rec.W.Nodes[(v+1)%rec.W.N].KeyPair.Priv, "")
			kinds := map[string]bool{}
			for k, sn := range rec.PreSnaps[v] {
				pool, del := sn.RawOps()
				for id, o := range pool {
					if _, d := del[id]; d {
						continue
					}
					kind := "submit-result"
					if fsm.State(o.Type) == spf.StateAwaitParticipantsConfirmations {
						kind = "approve-participation"
					}
					if kinds[kind] {
						continue
					}
					id := id
					sc := c14Scenario{View: v, Base: sn, Log: append(append([]storage.Message{}, rec.Log[:k]...), second)}
					if kind == "approve-participation" {
						sc.API = func(nd *world.Node) error {
							return nd.Svc.ApproveParticipation(&dto.OperationIdDTO{OperationID: id})
						}
					} else {
						res := results[fmt.Sprintf("%d|%s", v, id)]
						if res == nil {
							continue
						}
						sc.API = func(nd *world.Node) error { return nd.SubmitResult(cloneOp15(res)) }
					}
					kinds[kind] = true
					sc.APITag = kind + "+second-round"
					sc.Name = fmt.Sprintf("node%d@%d %s (round A) || one poll tick over the opening proposal of a second round", v, k, kind)
					scenarios = append(scenarios, sc)
				}
			}
		}
		// state reset while the poller applies messages
		for _, k := range []int{4, rec.DKGEnd - 2} {
			if k+2 <= len(rec.Log) && k < len(rec.Snaps[v]) {
				scenarios = append(scenarios, c14Scenario{Name: fmt.Sprintf("node%d@%d reset-state || one poll tick over 2 messages", v, k), View: v, Base: rec.Snaps[v][k], Log: rec.Log[:k+2], APITag: "reset-state",
					API: func(nd *world.Node) error {
						_, err := nd.FSM.ResetFSMState(&dto.ResetStateDTO{})
						return err
					}})
			}
		}
	}
	// finishing a reinitialisation (operation_processed_successfully writes the polynomial into
	// the round) while the poller applies the first signing proposal of the reinitialised round
	if sc, ok := reinitScenario(r); ok {
		scenarios = append(scenarios, sc)
	}
	if tier != "thorough" && len(scenarios) > 14 {
		// quick tier: one scenario per (request kind, message kind) pair
		seen := map[string]bool{}
		var keep []c14Scenario
		for _, sc := range scenarios {
			key := sc.APITag + "|" + fmt.Sprint(sc.View)
			if !seen[key] {
				seen[key] = true
				keep = append(keep, sc)
			}
		}
		scenarios = keep
	}
	execs, distinct := 0, 0
	for _, sc := range scenarios {
		if r.TimeUp() {
			break
		}
		e, d := runC14(r, rec, sc, bound, false)
		execs += e
		distinct += d
		if sc.APITag != "reset-state" {
			sc2 := sc
			sc2.Name += " [operations and rounds were listed before]"
			e, d = runC14(r, rec, sc2, bound, true)
			execs += e
			distinct += d
		}
	}
	r.Set("evaluations", execs)
	r.Set("schedules", execs)
	r.Set("preemption_bound", bound)
	r.Set("scenarios", len(scenarios))
	r.Set("distinct_nontrivial", distinct)
	r.Set("rule", "for every scenario: the two serial orders are executed to get the two allowed outcomes, then every schedule of the two threads within the pre-emption bound is executed on the real code under the cooperative scheduler; oracle: the concurrent outcome (pending and retired operations, every round, signature stores, offset, board appends) equals one of the serial outcomes; distinct = distinct concurrent outcomes observed")
	return finish(r)
}

// reinitScenario builds: node 1 of a reinitialised (2,2) deployment holds the pending reinit
// operation; node 0 already finished its reinitialisation and proposed a batch.
func reinitScenario(r *kit.Run) (c14Scenario, bool) {
	rec := getRecording(r, 2, 2)
	om := materialOf(rec, 2)
	w2, err := world.NewWorldCustom(om.Names, om.Mnemonics, "reinit-key:")
	if err != nil {
		r.Infra("world: %v", err)
	}
	newKeys := map[string][]byte{}
	for _, nd := range w2.Nodes {
		newKeys[nd.Name] = nd.KeyPair.Pub
	}
	re, err := types.GenerateReDKGMessage(om.Log, newKeys)
	if err != nil {
		r.Infra("reinit file: %v", err)
	}
	payload, _ := json.Marshal(re)
	if err := w2.Nodes[0].Svc.ReInitDKG(&dto.ReInitDKGDTO{ID: re.DKGID, Payload: payload}); err != nil {
		r.Infra("reinit: %v", err)
	}
	if err := w2.DrainAll(); err != nil {
		r.Infra("drain: %v", err)
	}
	// node 0 completes, then proposes
	for _, op := range w2.Nodes[0].PendingOps() {
		if err := w2.Operate(0, op.ID); err != nil {
			r.Infra("node 0 reinit: %v", err)
		}
	}
	ops1 := w2.Nodes[1].PendingOps()
	if len(ops1) != 1 {
		r.Infra("node 1 should hold the reinit operation, has %d", len(ops1))
	}
	res, err := w2.Airs[1].Process(ops1[0])
	if err != nil {
		r.Infra("machine 1 reinit: %v", err)
	}
	base := w2.Nodes[1].Mem.Snapshot()
	w2.Propose(0, re.DKGID, "after-reinit-batch", world.SimpleTasks("arb", []byte("x")))
	log := w2.Board.Log()
	view := w2.Nodes[1]
	sc := c14Scenario{Name: "node1 finish-reinit || one poll tick over the first signing proposal", View: 1, Base: base, Log: log, APITag: "finish-reinit",
		API:   func(nd *world.Node) error { return nd.SubmitResult(cloneOp15(res)) },
		Name2: view.Name, Key: view.KeyPair}
	w2.Close()
	return sc, true
}

// runC14 explores one scenario. Every execution runs on a node PROCESS built anew over the
// restored store (service objects, repositories, poller): whatever the services keep in memory
// is what a process has that was started on this store - cold when warm is false; with warm set
// the operator has listed the pending operations and the rounds once before (what the command
// line client does all the time), so anything the services remember from reads is filled.
func runC14(r *kit.Run, rec *world.Recording, sc c14Scenario, bound int, warm bool) (int, int) {
	w := rec.W
	mem := world.NewMemState(world.Topic)
	board := world.NewBoard()
	handle := board.NewHandle()
	hook := func(op, key, phase string) {
		if phase == "pre" {
			vsched.Yield("state." + op + ":" + keyClass([]byte(key)))
		}
	}
	handle.Hook = func(op, phase string) {
		if phase == "pre" {
			vsched.Yield("board." + op)
		}
	}
	name, kp := w.Nodes[sc.View].Name, w.Nodes[sc.View].KeyPair
	if sc.Key != nil {
		name, kp = sc.Name2, sc.Key
	}
	var nd *world.Node
	defer func() {
		if nd != nil {
			nd.Stop()
		}
	}()
	reset := func() {
		if nd != nil {
			nd.Stop()
		}
		mem.Restore(sc.Base)
		board.SetLog(sc.Log)
		handle.UnignoreMessages()
		var err error
		nd, err = world.NewNodeOver(name, kp, &world.HookedState{Inner: mem, Hook: hook}, handle)
		if err != nil {
			r.Infra("node: %v", err)
		}
		if warm {
			_, _ = nd.Ops.GetOperations()
			_, _ = nd.FSM.GetFSMList()
		}
	}
	poll := func() {
		if err := nd.Tick(-1); err != nil {
			panic(fmt.Sprintf("poll loop: %v", err))
		}
	}
	api := func() { _ = sc.API(nd) }
	prop, firstName := "C14", "poller"
	if sc.Prop != "" {
		prop = sc.Prop
	}
	if sc.Other != nil {
		poll = func() { _ = sc.Other(nd) }
		firstName = sc.OtherName
	}
	// The outcome is taken at quiescence: after both activities finished the poller keeps
	// ticking until the node consumed the whole board (a tick that started in the middle of a
	// multi-message Send legitimately sees a prefix of it; the next tick sees the rest).
	tick := func() {
		if err := nd.Tick(-1); err != nil {
			panic(fmt.Sprintf("poll loop: %v", err))
		}
	}
	settle := func() string {
		for i := 0; i < 20 && int(nd.Offset()) < board.Len(); i++ {
			tick()
		}
		return outcome14(nd, mem, board, len(sc.Log))
	}
	// serial outcomes
	reset()
	poll()
	api()
	s12 := settle()
	reset()
	api()
	poll()
	s21 := settle()
	ex := &sched.Explorer{Bound: bound, Stop: r.TimeUp, MaxExec: 60000,
		OutcomeKey: func(o interface{}) string { return kit.Digest(o) },
		Build: func() ([]string, []func(), func() interface{}) {
			reset()
			return []string{firstName, "api"}, []func(){poll, api}, func() interface{} {
				return settle()
			}
		}}
	ex.Check = func(x *sched.Exec) {
		tr := map[string]interface{}{"scenario": sc.Name, "schedule": x.Schedule(), "choices": x.Choices}
		if x.Deadlock || x.Livelock || x.Aborted != "" {
			r.Violation(prop+"/deadlock/"+sc.APITag, fmt.Sprintf("%s: deadlock=%v livelock=%v %s", sc.Name, x.Deadlock, x.Livelock, x.Aborted), tr)
			return
		}
		got := x.Obs.(string)
		if got != s12 && got != s21 {
			_ = diffClass
			r.Violation(prop+"/not-serialisable/"+sc.APITag, fmt.Sprintf("%s: a schedule with %d pre-emption(s) ends in a state that neither serial order produces (%s)", sc.Name, x.Preemptions(), diffDetail(got, s12, s21)), tr)
		}
	}
	a, b := ex.RunOne(nil), ex.RunOne(nil)
	if fmt.Sprint(a.Labels) != fmt.Sprint(b.Labels) || a.Obs != b.Obs {
		r.Infra("scenario %s is not deterministic under the scheduler", sc.Name)
	}
	ex.Explore()
	if ex.Capped {
		r.Cap("scenario " + sc.Name + " capped")
	}
	r.Sample(map[string]interface{}{"scenario": sc.Name, "schedules": ex.Executions, "distinct_outcomes": len(ex.Outcomes), "serial_orders_differ": s12 != s21, "scheduling_points_first_run": len(a.Labels)})
	return ex.Executions, len(ex.Outcomes)
}

// diffClass names which part of the outcome matches neither serial order.
func diffClass(got, a, b string) string {
	var g, x, y map[string]json.RawMessage
	_ = json.Unmarshal([]byte(got), &g)
	_ = json.Unmarshal([]byte(a), &x)
	_ = json.Unmarshal([]byte(b), &y)
	var parts []string
	for _, k := range []string{"pending", "retired", "rounds", "signatures", "offset", "appended"} {
		if string(g[k]) != string(x[k]) && string(g[k]) != string(y[k]) {
			parts = append(parts, k)
		}
	}
	if len(parts) == 0 {
		return "mixed"
	}
	return strings.Join(parts, "+")
}

func diffDetail(got, a, b string) string {
	var g, x, y map[string]json.RawMessage
	_ = json.Unmarshal([]byte(got), &g)
	_ = json.Unmarshal([]byte(a), &x)
	_ = json.Unmarshal([]byte(b), &y)
	var parts []string
	for _, k := range []string{"pending", "retired", "offset", "appended"} {
		if string(g[k]) != string(x[k]) && string(g[k]) != string(y[k]) {
			s := func(v json.RawMessage) string {
				t := string(v)
				if len(t) > 120 {
					t = t[:120] + "…"
				}
				return t
			}
			parts = append(parts, fmt.Sprintf("%s: concurrent %s, one serial order %s, the other serial order %s", k, s(g[k]), s(x[k]), s(y[k])))
		}
	}
	for _, k := range []string{"rounds", "signatures"} {
		if string(g[k]) != string(x[k]) && string(g[k]) != string(y[k]) {
			parts = append(parts, k+" differ from both serial orders")
		}
	}
	if len(parts) == 0 {
		return "every part matches one serial order, but not the same one"
	}
	return strings.Join(parts, "; ")
}

var _ = boardIDRe14
