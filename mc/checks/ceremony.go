package checks

import (
	"crypto/ed25519"
	"crypto/sha256"
	"errors"
	"fmt"
	"sync"

	"github.com/lidofinance/dc4bc/client/types"
	"github.com/lidofinance/dc4bc/fsm/fsm"
	spf "github.com/lidofinance/dc4bc/fsm/state_machines/signature_proposal_fsm"
	"github.com/lidofinance/dc4bc/fsm/types/requests"
	"github.com/lidofinance/dc4bc/storage"

	"verif/mc/kit"
	"verif/mc/world"
)

// stdRecording caches one recorded ceremony per (n,t) for the mutation-style checks.
var recMu sync.Mutex
var recCache = map[string]*world.Recording{}

func stdBatches() []world.BatchSpec {
	return []world.BatchSpec{
		{ID: "rec-batch-1", Proposer: 0, Tasks: world.SimpleTasks("rb1", []byte("recorded payload"), []byte{1, 2, 3})},
		{ID: "rec-batch-2", Proposer: 1, Tasks: []requests.SigningTask{{MessageID: "rb2-range", RangeStart: 4, RangeEnd: 6}}},
	}
}

func getRecording(r *kit.Run, n, t int) *world.Recording {
	recMu.Lock()
	defer recMu.Unlock()
	key := fmt.Sprintf("%d/%d", n, t)
	if rec, ok := recCache[key]; ok {
		return rec
	}
	rec, err := world.RecordCeremony(n, t, stdBatches())
	if err != nil {
		r.Infra("recording the honest ceremony n=%d t=%d failed: %v", n, t, err)
	}
	recCache[key] = rec
	return rec
}

// baseState is a protocol state of one node together with how it was obtained.
type baseState struct {
	View  int
	K     int    // messages of the recorded log consumed
	Pre   string // pre-step variant applied on top
	Snap  world.Snapshot
	Phase string // round state name
	Raw   world.Snapshot
	PreMs []storage.Message
	// FailAt > 0: the FailAt-th write of the node's store during the pre-step fails once
	FailAt int
}

// Materialize rebuilds the base state on the lab's node: the node object's volatile state is
// reset (verification switch), the recorded store is restored and the pre-step messages are
// processed again, so that volatile effects of the pre-step are present exactly for this state.
func (b *baseState) Materialize(lab *Lab) world.Snapshot {
	lab.Node.Svc.SetSkipCommKeysVerification(false)
	cur := b.Raw
	if b.FailAt > 0 {
		lab.Node.Mem.Arm(b.FailAt)
		defer lab.Node.Mem.Disarm()
	}
	for _, m := range b.PreMs {
		_, after, _ := lab.Step(cur, m)
		cur = after
	}
	return cur
}

func (b baseState) String() string {
	return fmt.Sprintf("node%d@%d+%s(%s)", b.View, b.K, b.Pre, b.Phase)
}

// addressed reports whether node `view` would hand the message to ProcessMessage.
func addressed(rec *world.Recording, view int, m storage.Message) bool {
	return m.RecipientAddr == "" || m.RecipientAddr == rec.W.Nodes[view].Name
}

// preSteps returns the unverified / benign messages used to vary a base state.
func preSteps(rec *world.Recording, snap world.Snapshot) map[string][]storage.Message {
	w := rec.W
	out := map[string][]storage.Message{"none": nil}
	// (1) a reinitialisation message that cannot be completed: its round id is blank, so the
	// replay loop runs and creating the round afterwards fails
	// (both carry what a 0.1.4-adapted dump carries: unsigned self-confirmations, the one kind of
	// replayed message the node cannot verify - whatever switch it flips for them must be back
	// in place afterwards)
	bad := types.ReDKG{DKGID: "   ", Threshold: w.T, Messages: replayedWithPatches(w, "   ")[1:]}
	out["failed-reinit"] = []storage.Message{world.SignedMessage("   ", string(types.ReinitDKG), world.MustJSON(bad), w.Nodes[1].Name, w.Nodes[1].KeyPair.Priv, "")}
	// (2) a reinitialisation message about a round this node does not know
	other := types.ReDKG{DKGID: "0000000000000000000000000000000000000000000000000000000000000042", Threshold: w.T}
	for i, nd := range w.Nodes {
		other.Participants = append(other.Participants, types.Participant{DKGPubKey: w.Airs[i].PubKeyBytes(), OldCommPubKey: nd.KeyPair.Pub, NewCommPubKey: nd.KeyPair.Pub, Name: nd.Name})
	}
	other.Messages = replayedWithPatches(w, other.DKGID)
	out["unrelated-reinit"] = []storage.Message{world.SignedMessage(other.DKGID, string(types.ReinitDKG), world.MustJSON(other), w.Nodes[1].Name, w.Nodes[1].KeyPair.Priv, "")}
	// (3) the opening proposal of a second round with the same participants
	idx := make([]int, w.N)
	for i := range idx {
		idx[i] = i
	}
	req := w.InitProposal(w.T, idx)
	req.CreatedAt = world.T0.Add(1)
	payload := world.MustJSON(req)
	out["second-round"] = []storage.Message{world.SignedMessage(world.RoundID(payload), string(spf.EventInitProposal), payload, w.Nodes[0].Name, w.Nodes[0].KeyPair.Priv, "")}
	// (3b) an opening proposal that the round FSM refuses (threshold above the number of
	// participants): whatever it leaves behind must not weaken the checks for that round id
	bad2 := w.InitProposal(w.N+1, idx)
	bad2.CreatedAt = world.T0.Add(2)
	bp := world.MustJSON(bad2)
	out["refused-proposal"] = []storage.Message{world.SignedMessage(world.RoundID(bp), string(spf.EventInitProposal), bp, w.Nodes[0].Name, w.Nodes[0].KeyPair.Priv, "")}
	// (4) an error report of participant 1 for the current DKG phase -> cancelled state
	if ph, ok := phaseOfState[fsm.State(snap.RoundState(rec.Round))]; ok && ph >= 1 && ph <= 4 {
		ev := Phases()[ph].Fail
		er := requests.DKGProposalConfirmationErrorRequest{ParticipantId: 1, Error: requests.NewFSMError(errors.New("reported")), CreatedAt: world.T0}
		out["cancelled-by-error"] = []storage.Message{world.SignedMessage(rec.Round, string(ev), world.MustJSON(er), w.Nodes[1].Name, w.Nodes[1].KeyPair.Priv, "")}
	}
	return out
}

func Phases() []struct {
	State   fsm.State
	Deliver fsm.Event
	Fail    fsm.Event
} {
	return world.Phases
}

// baseStates enumerates the protocol states of node `view` along the recorded ceremony, each
// with every applicable pre-step variant. Pre-steps that the node refuses are still applied
// (their side effects, if any, are part of the state).
func baseStates(r *kit.Run, rec *world.Recording, lab *Lab, view int) []baseState {
	var out []baseState
	for k := 0; k < len(rec.Snaps[view]); k++ {
		snap := rec.Snaps[view][k]
		pres := preSteps(rec, snap)
		for _, name := range world.SortedKeys(pres) {
			lab.Node.Svc.SetSkipCommKeysVerification(false)
			cur := snap
			for _, m := range pres[name] {
				_, after, _ := lab.Step(cur, m)
				cur = after
			}
			out = append(out, baseState{View: view, K: k, Pre: name, Snap: cur, Phase: cur.RoundState(rec.Round), Raw: snap, PreMs: pres[name]})
			// a reinitialisation that a write failure (a full disk) interrupts: one base state per
			// write of the step - whatever the step switched off for the replay must be back on
			if name == "unrelated-reinit" {
				for f := 1; f <= 64; f++ {
					lab.Node.Svc.SetSkipCommKeysVerification(false)
					lab.Node.Mem.Arm(f)
					cur := snap
					for _, m := range pres[name] {
						_, after, _ := lab.Step(cur, m)
						cur = after
					}
					if !lab.Node.Mem.Disarm() {
						break
					}
					out = append(out, baseState{View: view, K: k, Pre: fmt.Sprintf("%s+write-%d-fails", name, f), Snap: cur, Phase: cur.RoundState(rec.Round), Raw: snap, PreMs: pres[name], FailAt: f})
				}
			}
		}
	}
	return out
}

// protectedView extracts what C09/C18 require to stay byte-identical on a rejected message:
// every round that existed before, the operation pool, the tombstones and the signature stores.
func protectedView(before world.Snapshot) map[string]string {
	out := map[string]string{}
	for id, raw := range before.Rounds() {
		out["round:"+id] = string(raw)
	}
	for k, v := range before {
		if k == world.FSMKey || k == world.OffsetKeyS {
			continue
		}
		out["key:"+k] = v
	}
	return out
}

// changedProtected lists protected items of `before` that differ in `after`.
func changedProtected(before, after world.Snapshot) []string {
	var out []string
	ar := after.Rounds()
	for id, raw := range before.Rounds() {
		if string(ar[id]) != string(raw) {
			out = append(out, "round:"+id[:8])
		}
	}
	for k, v := range before {
		if k == world.FSMKey || k == world.OffsetKeyS {
			continue
		}
		if after[k] != v {
			out = append(out, k)
		}
	}
	for k := range after {
		if _, ok := before[k]; !ok && k != world.FSMKey {
			out = append(out, "+"+k)
		}
	}
	return out
}

// freshKey returns a key nobody registered.
func freshKey(label string) ed25519.PrivateKey {
	s := sha256.Sum256([]byte("verif-fresh:" + label))
	return ed25519.NewKeyFromSeed(s[:])
}

// replayedWithPatches is the message list of a reinitialisation file for round id: the opening
// proposal followed by one unsigned self-confirmation per participant (what the 0.1.4 adaptation
// adds; each node handles the one addressed to itself).
func replayedWithPatches(w *world.World, id string) []storage.Message {
	idx := make([]int, w.N)
	for i := range idx {
		idx[i] = i
	}
	req := w.InitProposal(w.T, idx)
	req.CreatedAt = world.T0.Add(33)
	out := []storage.Message{world.SignedMessage(id, string(spf.EventInitProposal), world.MustJSON(req), w.Nodes[0].Name, w.Nodes[0].KeyPair.Priv, "")}
	for i, nd := range w.Nodes {
		sc := requests.DKGProposalDealConfirmationRequest{ParticipantId: i, Deal: []byte("self-confirm"), CreatedAt: world.T0}
		out = append(out, storage.Message{DkgRoundID: id, Event: "event_dkg_deal_confirm_received", Data: world.MustJSON(sc), SenderAddr: nd.Name, RecipientAddr: nd.Name})
	}
	return out
}
