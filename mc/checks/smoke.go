package checks

import (
	"fmt"
	"time"

	"verif/mc/world"
)

func init() { Registry["smoke"] = smoke }

func smoke(tier string, args []string) int {
	out := world.RealStdout
	t0 := time.Now()
	w, err := world.NewWorld(3)
	if err != nil {
		fmt.Fprintln(out, "world:", err)
		return 3
	}
	defer w.Close()
	fmt.Fprintf(out, "world built in %v\n", time.Since(t0))
	t0 = time.Now()
	round, err := w.RunDKG(2)
	if err != nil {
		fmt.Fprintln(out, "dkg:", err)
		return 3
	}
	fmt.Fprintf(out, "dkg done in %v round=%s board=%d\n", time.Since(t0), round[:8], w.Board.Len())
	t0 = time.Now()
	w.Propose(0, round, "batch-1", world.SimpleTasks("b1", []byte("hello"), []byte("world")))
	if err := w.RunToQuiescence(); err != nil {
		fmt.Fprintln(out, "sign:", err)
		return 3
	}
	fmt.Fprintf(out, "signing done in %v board=%d\n", time.Since(t0), w.Board.Len())
	for i, n := range w.Nodes {
		fmt.Fprintf(out, "node %d state=%s offset=%d\n", i, n.RoundState(round), n.Offset())
	}
	for _, m := range w.Board.Log() {
		fmt.Fprintf(out, "%3d %-45s from=%-7s to=%-7s len=%d\n", m.Offset, m.Event, m.SenderAddr, m.RecipientAddr, len(m.Data))
	}
	return 0
}
