package checks

import (
	"bytes"
	"crypto/ed25519"
	"encoding/json"
	"errors"
	"fmt"
	"os"
	"sort"
	"strings"
	"sync/atomic"
	"time"

	"github.com/lidofinance/dc4bc/client/api/dto"
	"github.com/lidofinance/dc4bc/client/modules/state"
	"github.com/lidofinance/dc4bc/client/types"
	fsmtypes "github.com/lidofinance/dc4bc/fsm/types"
	"github.com/lidofinance/dc4bc/fsm/types/requests"
	"github.com/lidofinance/dc4bc/storage"
	"github.com/lidofinance/dc4bc/storage/file_storage"

	"verif/mc/kit"
	"verif/mc/world"
)

func init() { Registry["C08"] = c08 }

// publicProjection renders the public, time-free part of a node's state (DESIGN A.5).
// roundFilter "" = all rounds.
func publicProjection(sn world.Snapshot, roundFilter string) string {
	return projection(sn, roundFilter, false)
}

// crossNodeProjection additionally hides who delivered its (privately addressed) deal to THIS
// node: deals are recipient-specific, so inside the deals phase the per-participant progress
// legitimately differs between nodes at the same prefix.
func crossNodeProjection(sn world.Snapshot) string { return projection(sn, "", true) }

func projection(sn world.Snapshot, roundFilter string, hideDealProgress bool) string {
	out := map[string]interface{}{}
	rounds := sn.Rounds()
	ids := make([]string, 0, len(rounds))
	for id := range rounds {
		ids = append(ids, id)
	}
	sort.Strings(ids)
	for _, id := range ids {
		if roundFilter != "" && id != roundFilter {
			continue
		}
		d := sn.Dump(id)
		if d == nil {
			out[id] = "unreadable"
			continue
		}
		pr := map[string]interface{}{"State": d.State, "Threshold": d.Payload.Threshold, "PubKeys": d.Payload.PubKeys, "IDs": d.Payload.IDs}
		if p := d.Payload.SignatureProposalPayload; p != nil {
			q := map[int]interface{}{}
			for i, x := range p.Quorum {
				q[i] = []interface{}{x.Username, x.PubKey, x.DkgPubKey, x.Status, x.Threshold}
			}
			pr["sig"] = q
		}
		if p := d.Payload.DKGProposalPayload; p != nil {
			q := map[int]interface{}{}
			for i, x := range p.Quorum {
				st := interface{}(x.Status)
				if hideDealProgress && (x.Status.String() == "DealAwaitConfirmation" || x.Status.String() == "DealConfirmed") {
					st = "deals-phase"
				}
				q[i] = []interface{}{x.Username, x.DkgPubKey, x.DkgCommit, x.DkgResponse, x.DkgMasterKey, st, x.Error}
			}
			pr["dkg"] = q
			pr["PubPolyBz"] = p.PubPolyBz
		}
		if p := d.Payload.SigningProposalPayload; p != nil {
			q := map[int]interface{}{}
			for i, x := range p.Quorum {
				q[i] = []interface{}{x.Username, x.Status, x.PartialSigns, x.Error}
			}
			pr["signing"] = []interface{}{p.BatchID, p.InitiatorId, p.SrcPayload, q}
		}
		st := sn.Signatures(id)
		pr["signatures"] = st
		out[id] = pr
	}
	bz, _ := json.Marshal(out)
	return string(bz)
}

// chain returns the states of a node fed log L one message per tick (S[k] after k messages).
func chain(r *kit.Run, lab *Lab, L []storage.Message) []world.Snapshot {
	fresh := freshSnapshot(lab)
	lab.Node.Mem.Restore(fresh)
	lab.Board.SetLog(L)
	out := []world.Snapshot{fresh}
	for k := 1; k <= len(L); k++ {
		if err := lab.Node.Tick(k); err != nil {
			r.Infra("poll loop: %v", err)
		}
		out = append(out, lab.Node.Mem.Snapshot())
	}
	return out
}

var freshCache = map[*Lab]world.Snapshot{}

func freshSnapshot(lab *Lab) world.Snapshot {
	if s, ok := freshCache[lab]; ok {
		return s
	}
	n, err := world.NewNodeOver(lab.Node.Name, lab.Node.KeyPair, world.NewMemState(world.Topic), lab.Board.NewHandle())
	if err != nil {
		panic(err)
	}
	s := n.Mem.Snapshot()
	n.Stop()
	freshCache[lab] = s
	return s
}

// junkify inserts duplicated, badly signed and foreign-round messages into a log.
func junkify(rec *world.Recording, L []storage.Message, foreignReinit bool) []storage.Message {
	var out []storage.Message
	forgedPatches := false
	forgedLate := false
	for i, m := range L {
		out = append(out, m)
		if !foreignReinit && m.Event == "event_dkg_commit_confirm_received" && !forgedPatches && i+1 < len(L) && L[i+1].Event == "event_dkg_deal_confirm_received" {
			// (C20's dump) unsigned "self-confirmations" - the one kind of replayed message a
			// reinitialising node cannot verify - forged before the deals phase: one without sender
			// and recipient in participant 1's name (a broadcast), one from participant 0 to itself
			// in participant 1's name; every node of the original ceremony refused both
			forgedPatches = true
			sc := requests.DKGProposalDealConfirmationRequest{ParticipantId: 1, Deal: []byte("self-confirm"), CreatedAt: world.T0}
			out = append(out, storage.Message{DkgRoundID: rec.Round, Event: "event_dkg_deal_confirm_received", Data: world.MustJSON(sc)})
			n0 := rec.W.Nodes[0].Name
			out = append(out, storage.Message{DkgRoundID: rec.Round, Event: "event_dkg_deal_confirm_received", Data: world.MustJSON(sc), SenderAddr: n0, RecipientAddr: n0})
			// ... and one that looks exactly like participant 0's own self-confirmation, dated ten
			// years ahead
			sc0 := requests.DKGProposalDealConfirmationRequest{ParticipantId: 0, Deal: []byte("self-confirm"), CreatedAt: world.T0.AddDate(10, 0, 0)}
			out = append(out, storage.Message{DkgRoundID: rec.Round, Event: "event_dkg_deal_confirm_received", Data: world.MustJSON(sc0), SenderAddr: n0, RecipientAddr: n0})
		}
		if !foreignReinit && m.Event == "event_dkg_response_confirm_received" && !forgedLate {
			// (C20's dump) after the deals phase: one more look-alike of participant 0's
			// self-confirmation - the replay refuses it, the phase is over - followed by an unsigned
			// failure report in participant 1's name; whatever the replay switches for the first
			// must be back in place for the second
			forgedLate = true
			n0 := rec.W.Nodes[0].Name
			sc0 := requests.DKGProposalDealConfirmationRequest{ParticipantId: 0, Deal: []byte("self-confirm"), CreatedAt: world.T0}
			out = append(out, storage.Message{DkgRoundID: rec.Round, Event: "event_dkg_deal_confirm_received", Data: world.MustJSON(sc0), SenderAddr: n0, RecipientAddr: n0})
			er := requests.DKGProposalConfirmationErrorRequest{ParticipantId: 1, Error: requests.NewFSMError(errors.New("forged")), CreatedAt: world.T0}
			out = append(out, storage.Message{DkgRoundID: rec.Round, Event: "event_dkg_response_confirm_canceled_by_error", Data: world.MustJSON(er), SenderAddr: rec.W.Nodes[1].Name})
		}
		if !foreignReinit && i == 1 {
			// (C20's dump) a forged decline in the last participant's name, signed with another
			// key: every node of the original ceremony refused it
			last := len(rec.W.Nodes) - 1
			decl := requests.SignatureProposalParticipantRequest{ParticipantId: last, CreatedAt: world.T0}
			out = append(out, world.SignedMessage(rec.Round, "event_sig_proposal_decline_by_participant", world.MustJSON(decl), rec.W.Nodes[last].Name, rec.W.Nodes[0].KeyPair.Priv, ""))
		}
		if foreignReinit && i == 1 {
			// an (unauthenticated, by design) reinitialisation message of ANOTHER, fresh round: it
			// switches signature verification off while it is handled - afterwards the badly
			// signed messages below must be refused exactly as before, restart or not
			var parts []types.Participant
			for pi, nd := range rec.W.Nodes {
				parts = append(parts, types.Participant{DKGPubKey: rec.W.Airs[pi].PubKeyBytes(), OldCommPubKey: nd.KeyPair.Pub, NewCommPubKey: nd.KeyPair.Pub, Name: nd.Name})
			}
			fresh := strings.Repeat("cd", 16)
			re := types.ReDKG{DKGID: fresh, Threshold: rec.W.T, Participants: parts, Messages: replayedWithPatches(rec.W, fresh)}
			out = append(out, storage.Message{DkgRoundID: fresh, Event: string(types.ReinitDKG), Data: world.MustJSON(re), SenderAddr: rec.W.Nodes[1].Name})
			// ... such as this decline in the last participant's name, signed with another key
			last := len(rec.W.Nodes) - 1
			decl := requests.SignatureProposalParticipantRequest{ParticipantId: last, CreatedAt: world.T0}
			out = append(out, world.SignedMessage(rec.Round, "event_sig_proposal_decline_by_participant", world.MustJSON(decl), rec.W.Nodes[last].Name, rec.W.Nodes[0].KeyPair.Priv, ""))
		}
		switch i % 4 {
		case 1:
			out = append(out, m) // byte-identical duplicate
		case 2:
			bad := m
			bad.Signature = append([]byte(nil), m.Signature...)
			if len(bad.Signature) > 0 {
				bad.Signature[0] ^= 1
			}
			out = append(out, bad)
		case 3:
			alien := m
			alien.DkgRoundID = "ffffffffffffffffffffffffffffffffffffffffffffffffffffffffffffffff"
			out = append(out, alien)
		}
	}
	// messages that the round FSM accepts but the node then refuses (nothing may stay behind):
	// a proposal whose baked range cannot be expanded, right after the key generation
	var out2 []storage.Message
	for i, m := range out {
		out2 = append(out2, m)
		if m.Event == "event_dkg_master_key_confirm_received" && (i+1 == len(out) || out[i+1].Event == "event_signing_start") {
			w := rec.W
			bad := w.ProposalMessage(1, rec.Round, "batch-that-cannot-be-expanded", []requests.SigningTask{{MessageID: "beyond-the-list", RangeStart: 18600, RangeEnd: 18700}})
			out2 = append(out2, bad)
		}
	}
	out = out2
	// a verbatim copy of the first signing proposal, appended (anyone can) after its batch was
	// completed and before the next one is proposed
	var out3 []storage.Message
	var firstProposal *storage.Message
	for i := range L {
		if L[i].Event == "event_signing_start" {
			m := L[i]
			firstProposal = &m
			break
		}
	}
	copied := false
	seenFirst := false
	for i := range out {
		if firstProposal != nil && out[i].Event == "event_signing_start" && out[i].DkgRoundID == rec.Round {
			if string(out[i].Data) == string(firstProposal.Data) {
				seenFirst = true
			} else if seenFirst && !copied && len(out[i].Signature) > 0 && out[i].Signature[0] == findSig(L, out[i].Data) {
				out3 = append(out3, *firstProposal)
				copied = true
			}
		}
		out3 = append(out3, out[i])
	}
	out = out3
	for i := range out {
		out[i].Offset = uint64(i)
		out[i].ID = fmt.Sprintf("00000000-0000-4000-8000-%012d", i)
	}
	return out
}

func c08(tier string, args []string) int {
	r := newRun("C08", tier, "model_checking")
	r.Assume = []string{
		"logs: the recorded honest ceremony (n=3,t=2, two signing batches), the same with duplicated / badly signed / foreign-round messages inserted, and two complete rounds of the same participants on one board (n=2)",
		"a position of a log is a state of the search; if the property holds every position carries exactly one node state, which covers all 2^(k-1) ways of splitting k messages into polls",
		"timestamps inside the confirmation deadlines: the clock-shift run moves the clock by 3 days",
	}
	states, transitions, validated := 0, 0, 0
	rec := getRecording(r, 3, 2)
	views := []int{0, 2}
	if tier == "thorough" {
		views = []int{0, 1, 2}
	}
	logs := map[string][]storage.Message{"honest": rec.Log, "with-junk": junkify(rec, rec.Log, true)}

	// ---- (a) nodes that consumed the same prefix agree on everything public
	totalDeals := 0
	for _, m := range rec.Log {
		if m.Event == "event_dkg_deal_confirm_received" {
			totalDeals++
		}
	}
	for k := 0; k < len(rec.Log); k++ {
		deals := 0
		for _, m := range rec.Log[:k] {
			if m.Event == "event_dkg_deal_confirm_received" {
				deals++
			}
		}
		if deals > 0 && deals < totalDeals {
			continue // while private deals are in flight the nodes' views legitimately differ
		}
		var ref string
		for i := range rec.Snaps {
			if k >= len(rec.Snaps[i]) {
				continue
			}
			p := crossNodeProjection(rec.Snaps[i][k])
			transitions++
			if ref == "" {
				ref = p
			} else if p != ref {
				r.Violation("C08/nodes-disagree-at-same-prefix", fmt.Sprintf("after the same %d messages node 0 and node %d hold different public state", k, i), map[string]interface{}{"prefix": k, "node": i})
			}
		}
	}

	for _, name := range []string{"honest", "with-junk"} {
		L := logs[name]
		for _, v := range views {
			if r.TimeUp() {
				break
			}
			lab, err := NewLabFor(rec.W, v)
			if err != nil {
				r.Infra("lab: %v", err)
			}
			S := chain(r, lab, L)
			states += len(S)
			transitions += len(S) - 1
			validated++
			if name == "honest" {
				// the replayed node equals the live one in everything public
				for k := 0; k < len(S) && k < len(rec.Snaps[v]); k++ {
					if publicProjection(S[k], "") != publicProjection(rec.Snaps[v][k], "") {
						r.Violation("C08/replay-differs-from-live", fmt.Sprintf("node %d rebuilt by replaying %d messages differs from the node that followed the ceremony live", v, k), map[string]interface{}{"view": v, "prefix": k})
						break
					}
				}
			}
			// ---- (d) determinism: every single-message transition twice, and once with the
			// clock shifted by three days
			for k := 0; k < len(L); k++ {
				lab.Node.Mem.Restore(S[k])
				lab.Board.SetLog(L)
				_ = lab.Node.Tick(k + 1)
				again := lab.Node.Mem.Snapshot()
				transitions++
				if !again.Equal(S[k+1]) {
					r.Violation("C08/nondeterministic-transition", fmt.Sprintf("log %s: node %d processing message %d (%s) twice from the same state gave different stores: %v", name, v, k, L[k].Event, again.DiffKeys(S[k+1])), map[string]interface{}{"log": name, "view": v, "position": k})
				}
				world.SetClock(world.T0.Add(72 * time.Hour))
				lab.Node.Mem.Restore(S[k])
				lab.Board.SetLog(L)
				_ = lab.Node.Tick(k + 1)
				shifted := lab.Node.Mem.Snapshot()
				world.SetClock(world.T0)
				transitions++
				if publicProjection(shifted, "") != publicProjection(S[k+1], "") {
					r.Violation("C08/state-depends-on-wall-clock", fmt.Sprintf("log %s: node %d processing message %d (%s) three days later reaches a different public state", name, v, k, L[k].Event), map[string]interface{}{"log": name, "view": v, "position": k})
				}
			}
			// ---- (b) batching: from every position, one tick consuming up to every later position
			for pos := 0; pos < len(L); pos++ {
				for k := pos + 2; k <= len(L); k++ {
					lab.Node.Mem.Restore(S[pos])
					lab.Board.SetLog(L)
					if err := lab.Node.Tick(k); err != nil {
						r.Infra("poll loop: %v", err)
					}
					got := lab.Node.Mem.Snapshot()
					transitions++
					if !got.Equal(S[k]) {
						r.Violation("C08/batched-poll-differs", fmt.Sprintf("log %s: node %d consuming messages %d..%d in one poll ends in a state different from consuming them one by one: %v", name, v, pos, k-1, got.DiffKeys(S[k])), map[string]interface{}{"log": name, "view": v, "from": pos, "to": k})
						break
					}
				}
			}
			// restart of the node process at every position (new service objects over the same store)
			for pos := 1; pos < len(L); pos++ {
				st := world.NewMemState(world.Topic)
				st.Restore(S[pos])
				b := world.NewBoard()
				b.SetLog(L)
				nd, err := world.NewNodeOver(lab.Node.Name, lab.Node.KeyPair, st, b.NewHandle())
				if err != nil {
					r.Infra("restart: %v", err)
				}
				if err := nd.Tick(len(L)); err != nil {
					r.Infra("poll loop: %v", err)
				}
				transitions++
				if publicProjection(nd.Mem.Snapshot(), "") != publicProjection(S[len(L)], "") {
					r.Violation("C08/restart-changes-state", fmt.Sprintf("log %s: node %d restarted after %d messages and fed the rest reaches a different public state than the uninterrupted node", name, v, pos), map[string]interface{}{"log": name, "view": v, "restart_at": pos})
				}
				nd.Stop()
			}
			// a restart in the MIDDLE of a message (the process dies before one of the store
			// writes of that message) followed by consuming the rest: the log is still applied
			// exactly once in effect
			if name == "honest" {
				for pos := 0; pos < len(L); pos++ {
					for wIdx := 1; wIdx <= 6; wIdx++ {
						st := world.NewMemState(world.Topic)
						st.Restore(S[pos])
						writes := 0
						armed := true
						hs := &world.HookedState{Inner: st, Hook: func(op, key, phase string) {
							if phase != "pre" || (op != "set" && op != "saveoffset" && op != "delete") || !armed {
								return
							}
							writes++
							if writes == wIdx {
								armed = false
								panic(world.CrashSentinel{Point: fmt.Sprintf("before store write %d of message %d", wIdx, pos)})
							}
						}}
						b := world.NewBoard()
						b.SetLog(L)
						nd, err := world.NewNodeOver(lab.Node.Name, lab.Node.KeyPair, hs, b.NewHandle())
						if err != nil {
							r.Infra("node: %v", err)
						}
						writes = 0 // the constructor's own initialisation is not part of the message
						armed = true
						_ = nd.Tick(pos + 1)
						crashed := nd.Crashed != nil
						nd.Stop()
						if !crashed {
							break // this message has fewer store writes
						}
						nd2, err := world.NewNodeOver(lab.Node.Name, lab.Node.KeyPair, st, b.NewHandle())
						if err != nil {
							r.Infra("restart: %v", err)
						}
						if err := nd2.Tick(len(L)); err != nil {
							r.Infra("poll loop: %v", err)
						}
						transitions++
						if publicProjection(nd2.Mem.Snapshot(), "") != publicProjection(S[len(L)], "") {
							r.Violation("C08/crash-inside-message-changes-state", fmt.Sprintf("node %d killed before store write %d while handling message %d (%s), restarted and fed the rest of the log, reaches a different public state than the uninterrupted node", v, wIdx, pos, L[pos].Event), map[string]interface{}{"view": v, "position": pos, "write": wIdx})
						}
						nd2.Stop()
					}
				}
			}
			// ---- (e) state reset with an ignore list = fresh node on the filtered log
			if name == "with-junk" {
				var ignoreIDs []string
				var filtered []storage.Message
				for i, m := range L {
					if i%5 == 3 {
						ignoreIDs = append(ignoreIDs, m.ID)
					} else {
						filtered = append(filtered, m)
					}
				}
				lab.Node.Mem.Restore(S[len(L)])
				lab.Board.SetLog(L)
				if _, err := lab.Node.FSM.ResetFSMState(&dto.ResetStateDTO{Messages: ignoreIDs, UseOffset: false}); err != nil {
					r.Violation("C08/reset-failed", fmt.Sprintf("ResetFSMState: %v", err), nil)
				}
				if err := lab.Node.Tick(len(L)); err != nil {
					r.Infra("poll loop: %v", err)
				}
				afterReset := lab.Node.Mem.Snapshot()
				lab.Node.Handle.UnignoreMessages()
				lab2, _ := NewLabFor(rec.W, v)
				for i := range filtered {
					filtered[i].Offset = uint64(i)
				}
				S2 := chain(r, lab2, filtered)
				lab2.Node.Stop()
				transitions += len(L) + len(filtered)
				if publicProjection(afterReset, "") != publicProjection(S2[len(filtered)], "") {
					r.Violation("C08/reset-and-replay-differs", fmt.Sprintf("node %d after a state reset ignoring %d messages and replaying the board differs from a fresh node fed the filtered log", v, len(ignoreIDs)), map[string]interface{}{"view": v, "ignored": len(ignoreIDs)})
				}
			}
			// ---- (g) the round state does not depend on the node's own operation pool: the log fed
			// to a node whose operator answers at once (every operation a message creates is retired
			// before the next message, as if answered - the answers are in the log anyway) gives the
			// same round states as the log fed to a node whose operator never answers
			{
				fresh := freshSnapshot(lab)
				lab.Node.Mem.Restore(fresh)
				lab.Board.SetLog(L)
				for k := 1; k <= len(L); k++ {
					if err := lab.Node.Tick(k); err != nil {
						r.Infra("poll loop: %v", err)
					}
					ops, _ := lab.Node.Ops.GetOperations()
					for _, id := range world.SortedKeys(ops) {
						_ = lab.Node.Ops.DeleteOperation(ops[id])
					}
					transitions++
					got := lab.Node.Mem.Snapshot()
					if projection(got, rec.Round, true) != projection(S[k], rec.Round, true) {
						r.Violation("C08/round-state-depends-on-operation-pool", fmt.Sprintf("log %s: after %d messages (last: %s) node %d holds another round state when its operator has answered every operation (%s) than when none was answered (%s)", name, k, L[k-1].Event, v, got.RoundState(rec.Round), S[k].RoundState(rec.Round)), map[string]interface{}{"log": name, "view": v, "position": k, "event": L[k-1].Event})
						break
					}
				}
			}
			lab.Node.Stop()
			r.Sample(map[string]interface{}{"log": name, "view": v, "messages": len(L), "positions": len(S)})
		}
	}

	// ---- (f) conformance of the harness substitutes: the same log through a node over the REAL
	// LevelDBState and the REAL FileStorage must end in the same stored state as the node over
	// the in-memory state and board that all explorations use
	for _, name := range []string{"honest", "with-junk"} {
		L := logs[name]
		v := 0
		dir := world.NewDir("c08real")
		ls, err := state.NewLevelDBState(dir+"/state", world.Topic)
		if err != nil {
			r.Infra("leveldb state: %v", err)
		}
		fsBoard, err := file_storage.NewFileStorage(dir+"/board.log", dir+"/board.lock")
		if err != nil {
			r.Infra("file storage: %v", err)
		}
		writer, _ := file_storage.NewFileStorage(dir+"/board.log", dir+"/board.lock")
		counted := &countedStorage{Storage: fsBoard}
		realNode, err := world.NewNodeOverStorage(rec.W.Nodes[v].Name, rec.W.Nodes[v].KeyPair, ls, counted)
		if err != nil {
			r.Infra("node: %v", err)
		}
		lab, _ := NewLabFor(rec.W, v)
		S := chain(r, lab, L)
		lab.Node.Stop()
		for k := range L {
			if err := writer.Send(L[k]); err != nil {
				r.Infra("file board send: %v", err)
			}
			if k%3 == 2 || k == len(L)-1 {
				before := atomic.LoadInt64(&counted.done)
				if err := realNode.TickPlain(); err != nil {
					r.Infra("poll loop: %v", err)
				}
				// TickPlain returns when its third tick was TAKEN; wait until that tick has read
				// the board, so that the harness's next append never overlaps a read (this part
				// compares stores, it is not a concurrency exploration)
				for i := 0; atomic.LoadInt64(&counted.done) < before+3 && i < 50000; i++ {
					time.Sleep(100 * time.Microsecond)
				}
			}
		}
		real := world.Snapshot{}
		for key := range S[len(L)] {
			bz, _ := ls.Get(key)
			if bz != nil {
				real[key] = string(bz)
			}
		}
		off, _ := ls.LoadOffset()
		transitions += len(L)
		validated++
		// (the node re-broadcasts the signatures it reconstructs while replaying; on the file
		// board it then consumes its own broadcasts too, so its offset may exceed the log length)
		if int(off) < len(L) {
			r.Violation("C08/substitute-conformance/offset", fmt.Sprintf("log %s: the node over LevelDBState+FileStorage ends at offset %d of %d", name, off, len(L)), nil)
		}
		// message ids differ (the file board draws uuids), nothing stored depends on them
		if publicProjection(real, "") != publicProjection(S[len(L)], "") {
			r.Violation("C08/substitute-conformance/state", fmt.Sprintf("log %s: the node over the real LevelDBState and FileStorage ends in a different public state than the node over the in-memory substitutes", name), nil)
		}
		mp, _ := S[len(L)].RawOps()
		rp, _ := real.RawOps()
		if len(mp) != len(rp) {
			r.Violation("C08/substitute-conformance/operations", fmt.Sprintf("log %s: %d pending operations over the real stores, %d over the substitutes", name, len(rp), len(mp)), nil)
		}
		realNode.Stop()
		_ = ls.VerifClose()
		os.RemoveAll(dir)
	}

	// ---- (c) two rounds on one board: every interleaving, as a grid search
	rec2, err := world.RecordCeremony(2, 2, []world.BatchSpec{{ID: "A-batch", Proposer: 0, Tasks: world.SimpleTasks("a", []byte("round A"))}})
	if err != nil {
		r.Infra("recording: %v", err)
	}
	roundA := rec2.Round
	roundB, err := rec2.SecondRound(2, world.BatchSpec{ID: "B-batch", Proposer: 1, Tasks: world.SimpleTasks("b", []byte("round B"))})
	if err != nil {
		// "messages of other rounds interleaved on the same board change nothing": the same second
		// round on a board of its own (same participants, machines and proposal) is the control
		w0, werr := world.NewWorld(2)
		if werr != nil {
			r.Infra("world: %v", werr)
		}
		_, aerr := w0.StartDKGOver(2, 0, []int{0, 1}, func(q *requests.SignatureProposalParticipantsListRequest) { q.CreatedAt = world.T0.Add(1000) })
		if aerr == nil {
			aerr = w0.RunToQuiescence()
		}
		alone := aerr == nil
		for _, nd := range w0.Nodes {
			if nd.RoundState(w0.Round) != "stage_signing_idle" {
				alone = false
			}
		}
		w0.Close()
		if !alone {
			r.Infra("second round: %v (and it does not complete on a board of its own either: %v)", err, aerr)
		}
		r.Violation("C08/other-round-changes-state/second-round-does-not-complete-after-the-first", fmt.Sprintf("a second round of the same participants completes on a board of its own, but not on the board that holds the first round's messages: %v", err), map[string]interface{}{"scenario": "two-round recording (n=2,t=2)", "first_round": roundA})
		return finish(r)
	}
	for v := 0; v < 2; v++ {
		var A, B []storage.Message
		for _, m := range rec2.Log {
			if !(m.RecipientAddr == "" || m.RecipientAddr == rec2.W.Nodes[v].Name) {
				continue
			}
			if m.DkgRoundID == roundA {
				A = append(A, m)
			} else if m.DkgRoundID == roundB {
				B = append(B, m)
			}
		}
		// and, as the last message of round A, a reconstruction broadcast that the other
		// participant signs and posts under A's identifier while its entries name round B: it is
		// a message of round A, whatever it says inside
		{
			o := rec2.W.Nodes[1-v]
			entries := []fsmtypes.ReconstructedSignature{{File: "b", BatchID: "B-batch", MessageID: "b-0", SrcPayload: []byte("round B"), Signature: bytes.Repeat([]byte{0x21}, 96), Username: o.Name, DKGRoundID: roundB}}
			A = append(A, world.SignedMessage(roundA, "signature_reconstructed", world.MustJSON(entries), o.Name, o.KeyPair.Priv, ""))
		}
		lab, err := NewLabFor(rec2.W, v)
		if err != nil {
			r.Infra("lab: %v", err)
		}
		type cell struct{ snap world.Snapshot }
		grid := make([][]*cell, len(A)+1)
		for i := range grid {
			grid[i] = make([]*cell, len(B)+1)
		}
		grid[0][0] = &cell{freshSnapshot(lab)}
		step := func(from world.Snapshot, m storage.Message) world.Snapshot {
			lab.Node.Mem.Restore(from)
			off := int(lab.Node.Offset())
			mm := m
			mm.Offset = uint64(off)
			pad := make([]storage.Message, off)
			lab.Board.SetLog(append(pad, mm))
			if err := lab.Node.Tick(off + 1); err != nil {
				r.Infra("poll loop: %v", err)
			}
			return lab.Node.Mem.Snapshot()
		}
		for i := 0; i <= len(A); i++ {
			for j := 0; j <= len(B); j++ {
				if grid[i][j] == nil {
					continue
				}
				states++
				cur := grid[i][j].snap
				// round A's state must not depend on how much of round B was consumed
				if j > 0 && grid[i][0] != nil && publicProjection(cur, roundA) != publicProjection(grid[i][0].snap, roundA) {
					r.Violation("C08/other-round-changes-state", fmt.Sprintf("node %d: after %d messages of round A its state differs depending on whether %d messages of round B were interleaved", v, i, j), map[string]interface{}{"view": v, "a": i, "b": j})
				}
				if i > 0 && grid[0][j] != nil && publicProjection(cur, roundB) != publicProjection(grid[0][j].snap, roundB) {
					r.Violation("C08/other-round-changes-state", fmt.Sprintf("node %d: after %d messages of round B its state differs depending on whether %d messages of round A were interleaved", v, j, i), map[string]interface{}{"view": v, "a": i, "b": j})
				}
				if i < len(A) {
					nx := step(cur, A[i])
					transitions++
					if grid[i+1][j] == nil {
						grid[i+1][j] = &cell{nx}
					} else if publicProjection(grid[i+1][j].snap, "") != publicProjection(nx, "") {
						r.Violation("C08/interleaving-changes-state", fmt.Sprintf("node %d: two interleavings of %d messages of round A and %d of round B end in different states", v, i+1, j), map[string]interface{}{"view": v, "a": i + 1, "b": j})
					}
				}
				if j < len(B) {
					nx := step(cur, B[j])
					transitions++
					if grid[i][j+1] == nil {
						grid[i][j+1] = &cell{nx}
					} else if publicProjection(grid[i][j+1].snap, "") != publicProjection(nx, "") {
						r.Violation("C08/interleaving-changes-state", fmt.Sprintf("node %d: two interleavings of %d messages of round A and %d of round B end in different states", v, i, j+1), map[string]interface{}{"view": v, "a": i, "b": j + 1})
					}
				}
			}
		}
		validated++
		r.Sample(map[string]interface{}{"two_rounds_grid": fmt.Sprintf("%dx%d", len(A)+1, len(B)+1), "view": v})
		lab.Node.Stop()
	}
	// ---- (h) raw lines on the file board: whoever can append to the board file can write lines
	// that Send never writes - a line that leaves fields out, a line that claims another offset
	// than its position. Such a line is junk like any other: the state after the same lines must
	// not depend on where a poll ended. For every position of an interleaved two-round log a junk
	// line is put there, and the log is consumed in one poll, with a poll ending just before the
	// junk line, and with a poll ending just after it.
	{
		v := 0
		var A, B []storage.Message
		for _, m := range rec2.Log {
			if !(m.RecipientAddr == "" || m.RecipientAddr == rec2.W.Nodes[v].Name) {
				continue
			}
			if m.DkgRoundID == roundA {
				A = append(A, m)
			} else if m.DkgRoundID == roundB {
				B = append(B, m)
			}
		}
		// proposal and confirmations of both rounds, alternating, then round A's commits
		var base []storage.Message
		for i := 0; i < 3 && i < len(A) && i < len(B); i++ {
			base = append(base, A[i], B[i])
		}
		for i := 3; i < 5 && i < len(A); i++ {
			base = append(base, A[i])
		}
		other := func(id string) string {
			if id == roundA {
				return roundB
			}
			return roundA
		}
		line := func(pos int, m storage.Message) string {
			m.ID, m.Offset = fmt.Sprintf("line-%d", pos), uint64(pos)
			return string(world.MustJSON(m)) + "\n"
		}
		type rawLog struct {
			name  string
			lines []string
			junk  int
		}
		var variants []rawLog
		for p := 1; p <= len(base); p++ {
			for _, kind := range []string{"fields-left-out", "claims-next-offset", "claims-far-offset"} {
				var ls []string
				for i := 0; i < p; i++ {
					ls = append(ls, line(i, base[i]))
				}
				switch kind {
				case "fields-left-out":
					ls = append(ls, fmt.Sprintf(`{"id":"junk","offset":%d,"dkg_round_id":%q}`+"\n", p, other(base[p-1].DkgRoundID)))
				case "claims-next-offset":
					ls = append(ls, fmt.Sprintf(`{"id":"junk","offset":%d,"dkg_round_id":%q,"event":"junk","data":"anVuaw==","signature":"anVuaw==","sender":"nobody","recipient":""}`+"\n", p+1, base[p-1].DkgRoundID))
				case "claims-far-offset":
					ls = append(ls, fmt.Sprintf(`{"id":"junk","offset":%d,"dkg_round_id":%q,"event":"junk","data":"anVuaw==","signature":"anVuaw==","sender":"nobody","recipient":""}`+"\n", 1<<40, base[p-1].DkgRoundID))
				}
				for i := p; i < len(base); i++ {
					ls = append(ls, line(i+1, base[i]))
				}
				variants = append(variants, rawLog{fmt.Sprintf("%s@%d", kind, p), ls, p})
			}
		}
		consume := func(lines []string, cut int) (world.Snapshot, error) {
			dir := world.NewDir("c08raw")
			defer os.RemoveAll(dir)
			ms := world.NewMemState(world.Topic)
			if err := os.WriteFile(dir+"/board.log", nil, 0o644); err != nil {
				return nil, err
			}
			fsBoard, err := file_storage.NewFileStorage(dir+"/board.log", dir+"/board.lock")
			if err != nil {
				return nil, err
			}
			counted := &countedStorage{Storage: fsBoard}
			nd, err := world.NewNodeOverStorage(rec2.W.Nodes[v].Name, rec2.W.Nodes[v].KeyPair, ms, counted)
			if err != nil {
				return nil, err
			}
			defer nd.Stop()
			appendLines := func(ls []string) error {
				f, err := os.OpenFile(dir+"/board.log", os.O_APPEND|os.O_WRONLY, 0o644)
				if err != nil {
					return err
				}
				defer f.Close()
				_, err = f.WriteString(strings.Join(ls, ""))
				return err
			}
			poll := func() error {
				before := atomic.LoadInt64(&counted.done)
				if err := nd.TickPlain(); err != nil {
					return err
				}
				for i := 0; atomic.LoadInt64(&counted.done) < before+3 && i < 50000; i++ {
					time.Sleep(100 * time.Microsecond)
				}
				return nil
			}
			if cut > 0 && cut < len(lines) {
				if err := appendLines(lines[:cut]); err != nil {
					return nil, err
				}
				if err := poll(); err != nil {
					return nil, err
				}
				if err := appendLines(lines[cut:]); err != nil {
					return nil, err
				}
			} else if err := appendLines(lines); err != nil {
				return nil, err
			}
			if err := poll(); err != nil {
				return nil, err
			}
			// a second poll: whatever the first left unread (it must be nothing) gets its chance
			if err := poll(); err != nil {
				return nil, err
			}
			return ms.Snapshot(), nil
		}
		for _, vr := range variants {
			if r.TimeUp() {
				break
			}
			one, err := consume(vr.lines, 0)
			if err != nil {
				r.Infra("raw board %s: %v", vr.name, err)
			}
			states++
			for _, cut := range []int{vr.junk, vr.junk + 1} {
				if cut >= len(vr.lines) {
					continue
				}
				two, err := consume(vr.lines, cut)
				if err != nil {
					r.Infra("raw board %s: %v", vr.name, err)
				}
				transitions += len(vr.lines)
				if publicProjection(one, "") != publicProjection(two, "") {
					kind := vr.name[:strings.Index(vr.name, "@")]
					r.Violation("C08/raw-junk-line-makes-state-depend-on-poll-boundary/"+kind,
						fmt.Sprintf("file board with a junk line (%s) at position %d: a node that read all %d lines in one poll and a node whose first poll ended after %d lines end in different public states", kind, vr.junk, len(vr.lines), cut),
						map[string]interface{}{"lines": vr.lines, "first_poll_ends_after": cut})
				}
			}
			validated++
		}
		r.Sample(map[string]interface{}{"raw_board_variants": len(variants), "base_lines": len(base)})
	}
	rec2.W.Close()
	r.Set("states", states)
	r.Set("transitions", transitions)
	r.Set("traces_validated_against_impl", validated)
	r.Set("rule", "states = (log, position) pairs and (i,j) grid points; transitions = real Poll ticks: every single message twice and once with the clock +3 days, every (from,to) batch, a process restart at every position, reset+replay with an ignore list, and every step of the two-round interleaving grid; oracle: one node state per position (byte-exact for batching, public time-free projection across nodes, restarts, clock shift, interleavings)")
	var _ ed25519.PublicKey
	return finish(r)
}

// countedStorage counts completed board reads (pass-through otherwise).
type countedStorage struct {
	storage.Storage
	done int64
}

func (c *countedStorage) GetMessages(offset uint64) ([]storage.Message, error) {
	defer atomic.AddInt64(&c.done, 1)
	return c.Storage.GetMessages(offset)
}

// findSig returns the first signature byte of the genuine message of L with this data (0 if none).
func findSig(L []storage.Message, data []byte) byte {
	for _, m := range L {
		if string(m.Data) == string(data) && len(m.Signature) > 0 {
			return m.Signature[0]
		}
	}
	return 0
}
