package checks

import (
	"bytes"
	"encoding/base64"
	"encoding/hex"
	"encoding/json"
	"fmt"
	"os"
	"sort"
	"strings"
	"time"

	"github.com/corestario/kyber/encrypt/ecies"
	"github.com/corestario/kyber/pairing/bls12381"
	"github.com/syndtr/goleveldb/leveldb"

	"github.com/lidofinance/dc4bc/airgapped"
	"github.com/lidofinance/dc4bc/client/types"
	"github.com/lidofinance/dc4bc/fsm/types/requests"

	"verif/mc/kit"
	"verif/mc/oracle"
	"verif/mc/world"
)

func init() { Registry["C04"] = c04 }

type secret struct {
	Name  string
	Bytes []byte
}

// needles returns every searched encoding of a secret.
func needles(s secret) map[string][]byte {
	out := map[string][]byte{}
	rev := make([]byte, len(s.Bytes))
	for i := range s.Bytes {
		rev[len(s.Bytes)-1-i] = s.Bytes[i]
	}
	for tag, b := range map[string][]byte{"": s.Bytes, "-reversed": rev} {
		out["raw"+tag] = b
		out["hex"+tag] = []byte(hex.EncodeToString(b))
		out["HEX"+tag] = []byte(strings.ToUpper(hex.EncodeToString(b)))
		for align := 0; align < 3; align++ {
			padded := append(make([]byte, align), b...)
			enc := base64.StdEncoding.EncodeToString(padded)
			// drop the characters that depend on the neighbours: the first ones (alignment
			// padding) and the last ones (following bytes / '=' padding)
			start := []int{0, 2, 3}[align]
			enc = strings.TrimRight(enc, "=")
			if len(enc) > start+4 {
				enc = enc[start : len(enc)-2]
			}
			out[fmt.Sprintf("base64-std/%d%s", align, tag)] = []byte(enc)
			url := strings.NewReplacer("+", "-", "/", "_").Replace(enc)
			if url != enc {
				out[fmt.Sprintf("base64-url/%d%s", align, tag)] = []byte(url)
			}
		}
	}
	return out
}

// searchDoc looks for every needle in doc and, recursively, in everything inside doc that
// decodes as base64 (std or url, with or without padding).
func searchDoc(doc []byte, nd map[string]map[string][]byte, depth int, path string, hit func(secret, enc, where string)) {
	for sname, encs := range nd {
		for enc, n := range encs {
			if len(n) >= 8 && bytes.Contains(doc, n) {
				hit(sname, enc, path)
			}
		}
	}
	if depth == 0 {
		return
	}
	// candidate base64 runs
	isB64 := func(c byte) bool {
		return (c >= 'A' && c <= 'Z') || (c >= 'a' && c <= 'z') || (c >= '0' && c <= '9') || c == '+' || c == '/' || c == '-' || c == '_' || c == '='
	}
	for i := 0; i < len(doc); {
		if !isB64(doc[i]) {
			i++
			continue
		}
		j := i
		for j < len(doc) && isB64(doc[j]) {
			j++
		}
		run := string(doc[i:j])
		if len(run) >= 12 {
			for _, encn := range []*base64.Encoding{base64.StdEncoding, base64.RawStdEncoding, base64.URLEncoding, base64.RawURLEncoding} {
				if dec, err := encn.DecodeString(run); err == nil && len(dec) >= 8 {
					searchDoc(dec, nd, depth-1, path+"->b64", hit)
					break
				}
			}
		}
		i = j
	}
}

func c04(tier string, args []string) int {
	r := newRun("C04", tier, "exploration")
	r.Assume = []string{
		"a substring monitor over stated encodings (raw both byte orders, hex both cases, base64 std/url in the three alignments, recursively through nested base64) cannot exclude a transformed leak",
		"the base seed is stored unencrypted by design; the statement names the private key and the shares for at-rest encryption",
		"'random wrong passwords' of the quantifier are replaced by a fixed alphabet of near-miss passwords",
	}
	evals, distinct := 0, 0
	rec := getRecording(r, 3, 2)
	w := rec.W
	base := bls12381.NewBLS12381Suite(nil)

	// ---- secrets of every machine
	nd := map[string]map[string][]byte{}
	addSecret := func(s secret) {
		if len(s.Bytes) >= 16 {
			nd[s.Name] = needles(s)
		}
	}
	for i, a := range w.Airs {
		sk, _ := a.M.VerifSecKey().MarshalBinary()
		addSecret(secret{fmt.Sprintf("long-term private key of machine %d", i), sk})
		addSecret(secret{fmt.Sprintf("base seed of machine %d", i), a.M.VerifBaseSeed()})
		if d := a.M.VerifDKG(rec.Round); d != nil {
			for j, c := range d.VerifDealerCoefficients() {
				bz, _ := c.MarshalBinary()
				addSecret(secret{fmt.Sprintf("coefficient %d of the secret polynomial of machine %d", j, i), bz})
			}
		}
		krs, _ := a.M.GetBLSKeyrings()
		if kr := krs[rec.Round]; kr != nil {
			bz, _ := kr.Share.V.MarshalBinary()
			addSecret(secret{fmt.Sprintf("BLS share of machine %d", i), bz})
		}
	}
	r.Set("secrets_searched", len(nd))

	// ---- (a) every output of every machine
	docs := map[string][]byte{}
	for i := range w.Airs {
		ops := machineOps(r, rec, i)
		// honest results (recomputed on fresh machines) and error results
		for k := range ops {
			if k >= 5 {
				break
			}
			a, err := freshMachineAt(rec, i, ops, k)
			if err != nil {
				r.Infra("machine: %v", err)
			}
			o := ops[k]
			if res, err := a.Process(&o); err == nil {
				bz, _ := json.Marshal(res)
				docs[fmt.Sprintf("machine %d result of %s", i, o.Type)] = bz
			}
			// the same operation again (handler error: instance exists / wrong state)
			if res, err := a.Process(&o); err == nil {
				bz, _ := json.Marshal(res)
				docs[fmt.Sprintf("machine %d result of repeated %s", i, o.Type)] = bz
			}
			// garbled payload and unknown round
			g := o
			g.Payload = []byte(`[{"ParticipantId":0}]`)
			if res, err := a.Process(&g); err == nil {
				bz, _ := json.Marshal(res)
				docs[fmt.Sprintf("machine %d result of garbled %s", i, o.Type)] = bz
			}
			a.Close()
			os.RemoveAll(a.Dir)
		}
		// reinitialisation on a new machine from the mnemonic
		na, err := world.NewAirWithMnemonic(w.Airs[i].Label, w.Airs[i].Mnemonic)
		if err != nil {
			r.Infra("machine: %v", err)
		}
		opsBz, _ := json.Marshal(ops[:4])
		reinit := types.NewOperation(rec.Round, opsBz, types.ReinitDKG)
		if res, err := na.Process(reinit); err == nil {
			bz, _ := json.Marshal(res)
			docs[fmt.Sprintf("machine %d result of reinit_dkg", i)] = bz
			if res.Event != types.OperationProcessed {
				r.Infra("reinit on machine %d did not succeed: %s", i, res.Event)
			}
		} else {
			r.Infra("reinit on machine %d: %v", i, err)
		}
		na.Close()
		os.RemoveAll(na.Dir)
	}
	for i, m := range rec.Log {
		bz, _ := json.Marshal(m)
		docs[fmt.Sprintf("board message %d (%s from %s)", i, m.Event, m.SenderAddr)] = bz
	}
	names := make([]string, 0, len(docs))
	for n := range docs {
		names = append(names, n)
	}
	sort.Strings(names)
	for _, name := range names {
		evals++
		distinct++
		searchDoc(docs[name], nd, 4, "$", func(s, enc, where string) {
			kind := strings.Fields(s)[0] + "-" + strings.Fields(s)[1]
			r.Violation("C04/secret-in-output/"+kind+"/"+docKind(name), fmt.Sprintf("%s contains the %s (%s encoding, at %s)", name, s, enc, where), map[string]string{"document": name, "secret": s, "encoding": enc, "where": where})
		})
	}
	r.Sample(map[string]interface{}{"documents_searched": len(docs), "example": names[0]})

	// ---- (b) a deal opens with the addressee's key only
	for _, m := range rec.Log {
		if m.Event != "event_dkg_deal_confirm_received" {
			continue
		}
		var req requests.DKGProposalDealConfirmationRequest
		if json.Unmarshal(m.Data, &req) != nil || string(req.Deal) == "self-confirm" {
			continue
		}
		for q, a := range w.Airs {
			_, err := func() (out []byte, err error) {
				defer func() {
					if rec := recover(); rec != nil {
						err = fmt.Errorf("panic")
					}
				}()
				return ecies.Decrypt(base, a.M.VerifSecKey(), req.Deal, base.Hash)
			}()
			evals++
			distinct++
			isAddressee := w.Nodes[q].Name == m.RecipientAddr
			if isAddressee && err != nil {
				r.Infra("the addressee cannot open its own deal: %v", err)
			}
			if !isAddressee && err == nil {
				r.Violation("C04/deal-opened-with-foreign-key", fmt.Sprintf("the deal of %s for %s opens with the long-term key of machine %d", m.SenderAddr, m.RecipientAddr, q), map[string]interface{}{"offset": m.Offset, "key_of": q})
			}
		}
	}

	// ---- (c) at rest: wrong passwords fail, plaintext secrets are not in the database
	a0 := w.Airs[0]
	a0.Close()
	dbCopy := world.NewDir("c04db")
	if err := copyTree(a0.Dir+"/db", dbCopy+"/db"); err != nil {
		r.Infra("copy db: %v", err)
	}
	if err := a0.Restart(rec.Round); err != nil {
		r.Infra("restart: %v", err)
	}
	pw := world.Password
	// (pw + "\x00" is NOT in the alphabet: scrypt = PBKDF2-HMAC, and HMAC zero-pads keys shorter
	// than its block, so trailing NUL bytes give the same key by construction of the primitive)
	wrong := []string{"", pw[:len(pw)-1], pw + "x", pw + "0", strings.ToUpper(pw), string(append([]byte{pw[0] ^ 1}, pw[1:]...)), " " + pw, pw[1:]}
	for _, wp := range wrong {
		m, err := airgapped.NewMachine(dbCopy + "/db")
		if err != nil {
			r.Infra("open copy: %v", err)
		}
		m.SetEncryptionKey([]byte(wp))
		evals++
		distinct++
		if err := m.LoadKeysFromDB(); err == nil {
			r.Violation("C04/keys-load-with-wrong-password", fmt.Sprintf("the long-term keys load with the wrong password %q", wp), map[string]string{"password": wp})
		}
		if krs, err := m.GetBLSKeyrings(); err == nil && len(krs) > 0 {
			r.Violation("C04/keyring-loads-with-wrong-password", fmt.Sprintf("the BLS keyrings load with the wrong password %q", wp), map[string]string{"password": wp})
		}
		_ = m.VerifCloseDB()
		// the way the operator's program opens the machine (password, then InitKeys - which
		// generates keys when there are none yet): on a copy of its own, InitKeys may write
		db2 := world.NewDir("c04db2")
		if err := copyTree(dbCopy+"/db", db2+"/db"); err != nil {
			r.Infra("copy db: %v", err)
		}
		m2, err := airgapped.NewMachine(db2 + "/db")
		if err != nil {
			r.Infra("open copy: %v", err)
		}
		m2.SetEncryptionKey([]byte(wp))
		if err := m2.InitKeys(); err == nil {
			r.Violation("C04/machine-opens-with-wrong-password", fmt.Sprintf("a stopped machine that has keys opens (InitKeys succeeds) with the wrong password %q", wp), map[string]string{"password": wp})
		}
		_ = m2.VerifCloseDB()
		// and the attempt must not have replaced what the right password protects
		m3, err := airgapped.NewMachine(db2 + "/db")
		if err != nil {
			r.Infra("open copy: %v", err)
		}
		m3.SetEncryptionKey([]byte(pw))
		if err := m3.LoadKeysFromDB(); err != nil {
			r.Violation("C04/wrong-password-attempt-damages-keys", fmt.Sprintf("after an attempt to open the machine with the wrong password %q its keys no longer load with the right one: %v", wp, err), map[string]string{"password": wp})
		}
		_ = m3.VerifCloseDB()
		os.RemoveAll(db2)
	}
	// the same machine instance after the password expired / was replaced by a wrong one: the
	// shares must not stay usable (a signing operation must fail, keyrings must not load)
	{
		live, err := world.CloneAir(a0, rec.Round)
		if err != nil {
			r.Infra("clone machine: %v", err)
		}
		ops := machineOps(r, rec, 0)
		sign := ops[len(ops)-1]
		if !sign.IsSigningState() {
			r.Infra("no signing operation recorded for machine 0")
		}
		if res, err := live.Process(&sign); err != nil || res.Event != "event_signing_partial_sign_received" {
			r.Infra("the cloned machine cannot sign with the right password: %v", err)
		}
		for _, wp := range []string{"", pw + "x", strings.ToUpper(pw)} {
			live.M.DropSensitiveData()
			live.M.SetEncryptionKey([]byte(wp))
			evals++
			distinct++
			if krs, err := live.M.GetBLSKeyrings(); err == nil && len(krs) > 0 {
				r.Violation("C04/keyring-loads-with-wrong-password", fmt.Sprintf("after the password expired and the wrong password %q was entered the BLS keyrings still load on the running machine", wp), map[string]string{"password": wp, "instance": "running"})
			}
			s2 := sign
			res, err := live.Process(&s2)
			if err == nil && res.Event == "event_signing_partial_sign_received" {
				r.Violation("C04/share-usable-with-wrong-password", fmt.Sprintf("after the password expired and the wrong password %q was entered the running machine still signs with its share", wp), map[string]string{"password": wp, "instance": "running"})
			}
		}
		live.Close()
		os.RemoveAll(live.Dir)
	}
	// the password lifetime ends in the middle of the ceremony (cmd/airgapped checks the password
	// and runs the command in two separate lock sections, the expiry ticker fits in between): at
	// every point of the four key-generation operations the machine drops its secrets, the next
	// operation is processed, and then the database is opened WITHOUT a password - nothing the
	// machine stored may load
	{
		ops := machineOps(r, rec, 0)[:4]
		for at := 1; at <= 4; at++ {
			a, err := freshMachineAt(rec, 0, ops, at-1)
			if err != nil {
				r.Infra("machine: %v", err)
			}
			a.M.DropSensitiveData()
			o := ops[at-1]
			_, perr := a.Process(&o)
			evals++
			distinct++
			_ = a.M.VerifCloseDB()
			for _, wp := range []string{"", "x"} {
				m, err := airgapped.NewMachine(a.DBPath())
				if err != nil {
					r.Infra("reopen: %v", err)
				}
				m.SetEncryptionKey([]byte(wp))
				trace := map[string]interface{}{"password_dropped_before_operation": at, "operation": string(o.Type), "operation_result": fmt.Sprint(perr), "opened_with": wp}
				if err := m.LoadKeysFromDB(); err == nil {
					r.Violation("C04/keys-stored-under-another-password/after-expiry", fmt.Sprintf("the password expired before operation %d (%s); afterwards the long-term keys in the database load with the password %q", at, o.Type, wp), trace)
				}
				if krs, err := m.GetBLSKeyrings(); err == nil && len(krs) > 0 {
					r.Violation("C04/share-stored-under-another-password/after-expiry", fmt.Sprintf("the password expired before operation %d (%s); the operation was processed all the same and the BLS share it stored loads with the password %q", at, o.Type, wp), trace)
				}
				_ = m.VerifCloseDB()
			}
			a.M = nil
			os.RemoveAll(a.Dir)
		}
	}
	db, err := leveldb.OpenFile(dbCopy+"/db", nil)
	if err != nil {
		r.Infra("open raw db: %v", err)
	}
	it := db.NewIterator(nil, nil)
	atRest := map[string]map[string][]byte{}
	for n, e := range nd {
		if strings.Contains(n, "machine 0") && !strings.HasPrefix(n, "base seed") {
			atRest[n] = e
		}
	}
	type rec04 struct {
		key string
		val []byte
	}
	var records []rec04
	for it.Next() {
		evals++
		key := string(it.Key())
		records = append(records, rec04{key, append([]byte(nil), it.Value()...)})
		searchDoc(append([]byte(nil), it.Value()...), atRest, 3, "db["+key+"]", func(s, enc, where string) {
			r.Violation("C04/plaintext-secret-at-rest/"+strings.Fields(s)[0], fmt.Sprintf("the database value %q contains the %s in plaintext (%s)", key, s, enc), map[string]string{"key": key, "secret": s})
		})
	}
	it.Release()
	// "stored only encrypted": two records sealed under one key stream give a secret away without
	// the password as soon as the other plaintext is known (the public key is): for every pair of
	// stored values, every secret s and every known plaintext k (machine 0's public key, the other
	// secrets), at every offset within the first 160 bytes: a XOR b must not equal s XOR k
	{
		known := map[string][]byte{}
		if pk, err := w.Airs[0].M.GetPubKey().MarshalBinary(); err == nil {
			known["the machine's public key"] = pk
		}
		for n, e := range atRest {
			known["the "+n] = e["raw"]
		}
		for i := 0; i < len(records); i++ {
			for j := 0; j < len(records); j++ {
				if i == j {
					continue
				}
				a, b := records[i].val, records[j].val
				for sn, se := range atRest {
					sec := se["raw"]
					for kn, kp := range known {
						L := len(sec)
						if len(kp) < L {
							L = len(kp)
						}
						if L < 16 || kn == "the "+sn {
							continue
						}
						evals++
						for off := 0; off < 160 && off+L <= len(a) && off+L <= len(b); off++ {
							hit := true
							for x := 0; x < L; x++ {
								if a[off+x]^b[off+x] != sec[x]^kp[x] {
									hit = false
									break
								}
							}
							if hit {
								r.Violation("C04/key-stream-reused-at-rest/"+strings.Fields(sn)[0], fmt.Sprintf("the stored records %q and %q are sealed under one key stream: their XOR at offset %d is the XOR of the %s and %s - the secret follows from the database files and public data, without the password", records[i].key, records[j].key, off, sn, kn), map[string]string{"record_a": records[i].key, "record_b": records[j].key, "secret": sn, "known": kn})
								break
							}
						}
					}
				}
			}
		}
	}
	db.Close()
	os.RemoveAll(dbCopy)

	// ---- (d) key material of different rounds is unrelated
	c04RoundPairs(r, &evals, &distinct)

	// ---- (e) nonce discipline of the long-term key
	c04Nonces(r, tier, &evals, &distinct)

	r.Set("evaluations", evals)
	r.Set("distinct_nontrivial", distinct)
	r.Set("rule", "(a) every result operation of every machine (honest, repeated, garbled, reinit) and every board message searched for every secret in every encoding; (b) every (deal, machine key) pair; (c) a near-miss password alphabet against LoadKeysFromDB / GetBLSKeyrings and every database value searched for plaintext secrets, every pair of stored records for a shared key stream (a XOR b = secret XOR known plaintext); (d) every pair of rounds from a family on the same machines compared for equal group keys, shares and dealer coefficients; (e) every Schnorr signature in every result file of a machine across the ceremony and restart+replay in every deal order: no two with the same commitment R and different messages (else the key is recovered and compared)")
	return finish(r)
}

func docKind(name string) string {
	switch {
	case strings.Contains(name, "reinit"):
		return "reinit-result"
	case strings.Contains(name, "board message"):
		return "board-message"
	case strings.Contains(name, "repeated"), strings.Contains(name, "garbled"):
		return "error-result"
	}
	return "result"
}

func copyTree(src, dst string) error {
	if err := os.MkdirAll(dst, 0o755); err != nil {
		return err
	}
	ents, err := os.ReadDir(src)
	if err != nil {
		return err
	}
	for _, e := range ents {
		if e.IsDir() || e.Name() == "LOCK" {
			continue
		}
		bz, err := os.ReadFile(src + "/" + e.Name())
		if err != nil {
			return err
		}
		if err := os.WriteFile(dst+"/"+e.Name(), bz, 0o644); err != nil {
			return err
		}
	}
	return nil
}

type roundMaterial struct {
	GroupKey string
	Shares   map[string]string   // participant name -> share scalar
	Coeffs   map[string][]string // participant name -> dealer coefficients
}

// c04RoundPairs runs a family of rounds on the same machines and compares their key material.
func c04RoundPairs(r *kit.Run, evals, distinct *int) {
	type spec struct {
		Name string
		Idx  []int
		T    int
	}
	family := []spec{
		{"base", []int{0, 1, 2}, 2},
		{"same-participants-same-threshold", []int{0, 1, 2}, 2},
		{"permuted-participants", []int{2, 0, 1}, 2},
		{"different-threshold", []int{0, 1, 2}, 3},
		{"one-participant-replaced", []int{0, 1, 3}, 2},
	}
	w, err := world.NewWorld(4)
	if err != nil {
		r.Infra("world: %v", err)
	}
	defer w.Close()
	var mats []roundMaterial
	for fi, sp := range family {
		fi := fi
		round, err := w.StartDKGOver(sp.T, sp.Idx[0], sp.Idx, func(q *requests.SignatureProposalParticipantsListRequest) { q.CreatedAt = world.T0.Add(int64ToDur(fi)) })
		if err != nil {
			r.Infra("start: %v", err)
		}
		in := map[int]bool{}
		for _, i := range sp.Idx {
			in[i] = true
		}
		for iter := 0; iter < 100; iter++ {
			if err := w.DrainAll(); err != nil {
				r.Infra("drain: %v", err)
			}
			cnt := 0
			for i, nd := range w.Nodes {
				if !in[i] {
					continue
				}
				for _, op := range nd.PendingOps() {
					if op.DKGIdentifier != round {
						continue
					}
					if err := w.Operate(i, op.ID); err != nil {
						r.Infra("round %s participant %d %s: %v", sp.Name, i, op.Type, err)
					}
					cnt++
				}
			}
			if cnt == 0 {
				break
			}
		}
		m := roundMaterial{Shares: map[string]string{}, Coeffs: map[string][]string{}}
		for _, i := range sp.Idx {
			krs, _ := w.Airs[i].M.GetBLSKeyrings()
			kr := krs[round]
			if kr == nil {
				r.Infra("round %s: machine %d has no keyring", sp.Name, i)
			}
			gk, _ := oracle.GroupKeyBytes(kr)
			m.GroupKey = hex.EncodeToString(gk)
			sh, _ := kr.Share.V.MarshalBinary()
			m.Shares[w.Nodes[i].Name] = hex.EncodeToString(sh)
			if d := w.Airs[i].M.VerifDKG(round); d != nil {
				for _, c := range d.VerifDealerCoefficients() {
					bz, _ := c.MarshalBinary()
					m.Coeffs[w.Nodes[i].Name] = append(m.Coeffs[w.Nodes[i].Name], hex.EncodeToString(bz))
				}
			}
		}
		mats = append(mats, m)
	}
	for a := 0; a < len(family); a++ {
		for b := a + 1; b < len(family); b++ {
			*evals++
			*distinct++
			pair := family[a].Name + "|" + family[b].Name
			trace := map[string]string{"round_a": family[a].Name, "round_b": family[b].Name}
			if mats[a].GroupKey == mats[b].GroupKey {
				r.Violation("C04/rounds-share/group-key/"+pair, fmt.Sprintf("rounds %q and %q (different round ids, same machines) have the same group key", family[a].Name, family[b].Name), trace)
			}
			for name, sh := range mats[a].Shares {
				if mats[b].Shares[name] == sh {
					r.Violation("C04/rounds-share/private-share/"+pair, fmt.Sprintf("participant %s holds the same private share in rounds %q and %q", name, family[a].Name, family[b].Name), trace)
					break
				}
			}
			shared := false
			for name, ca := range mats[a].Coeffs {
				for _, x := range ca {
					for _, y := range mats[b].Coeffs[name] {
						if x == y {
							shared = true
						}
					}
				}
			}
			if shared {
				r.Violation("C04/rounds-share/dealer-polynomial/"+pair, fmt.Sprintf("a participant's secret dealer polynomial has a common coefficient in rounds %q and %q", family[a].Name, family[b].Name), trace)
			}
		}
	}
	r.Sample(map[string]interface{}{"round_family": []string{family[0].Name, family[1].Name, family[2].Name, family[3].Name, family[4].Name}})
}

func int64ToDur(i int) time.Duration { return time.Duration(int64(i+1) * 1000) }
