package checks

import (
	"crypto/ed25519"
	"encoding/json"
	"fmt"
	"sort"
	"strings"

	"github.com/lidofinance/dc4bc/client/types"
	"github.com/lidofinance/dc4bc/fsm/fsm"
	"github.com/lidofinance/dc4bc/fsm/state_machines"
	dpf "github.com/lidofinance/dc4bc/fsm/state_machines/dkg_proposal_fsm"
	spf "github.com/lidofinance/dc4bc/fsm/state_machines/signature_proposal_fsm"
	sif "github.com/lidofinance/dc4bc/fsm/state_machines/signing_proposal_fsm"
	"github.com/lidofinance/dc4bc/fsm/types/requests"
	"github.com/lidofinance/dc4bc/storage"

	"verif/mc/world"
)

func init() { Registry["C10"] = c10 }

// participantRecord renders everything a round records for participant pid (all three quorums).
func participantRecord(d *state_machines.FSMDump, pid int) string {
	if d == nil || d.Payload == nil {
		return "{}"
	}
	out := map[string]interface{}{}
	if p := d.Payload.SignatureProposalPayload; p != nil {
		if q, ok := p.Quorum[pid]; ok {
			out["sig"] = q
		}
	}
	if p := d.Payload.DKGProposalPayload; p != nil {
		if q, ok := p.Quorum[pid]; ok {
			out["dkg"] = q
		}
	}
	if p := d.Payload.SigningProposalPayload; p != nil {
		if q, ok := p.Quorum[pid]; ok {
			out["signing"] = q
		}
	}
	bz, _ := json.Marshal(out)
	return string(bz)
}

// claimedParticipant extracts the participant id a request claims (nil if the payload has none).
func claimedParticipant(data []byte) *int {
	var x struct{ ParticipantId *int }
	if json.Unmarshal(data, &x) != nil {
		return nil
	}
	return x.ParticipantId
}

type claimVariant struct {
	Name   string
	Data   []byte
	Target int // the participant the typed request will name
}

// claimVariants re-encodes the participant id of a request in every way that a JSON decoder could
// read differently from the typed request decoder: the contribution is P's, the sender is S.
func claimVariants(data []byte, P, S int) []claimVariant {
	out := []claimVariant{{"explicit", data, P}}
	var m map[string]json.RawMessage
	if json.Unmarshal(data, &m) != nil {
		return out
	}
	delete(m, "ParticipantId")
	restBz, _ := json.Marshal(m)
	inner := string(restBz[1 : len(restBz)-1])
	join := func(head, tail string) []byte {
		parts := []string{}
		for _, p := range []string{head, inner, tail} {
			if p != "" {
				parts = append(parts, p)
			}
		}
		return []byte("{" + strings.Join(parts, ",") + "}")
	}
	out = append(out,
		claimVariant{"omitted", join("", ""), 0},
		claimVariant{"null", join(`"ParticipantId":null`, ""), 0},
		claimVariant{"lower-case-key", join(fmt.Sprintf(`"participantid":%d`, P), ""), P},
		claimVariant{"duplicate-key-own-first", join(fmt.Sprintf(`"ParticipantId":%d`, S), fmt.Sprintf(`"ParticipantId":%d`, P)), P},
		claimVariant{"duplicate-key-other-case", join(fmt.Sprintf(`"ParticipantId":%d`, S), fmt.Sprintf(`"participantId":%d`, P)), P},
		claimVariant{"duplicate-key-own-last", join(fmt.Sprintf(`"ParticipantId":%d`, P), fmt.Sprintf(`"ParticipantId":%d`, S)), S},
		// bytes after the request object: one decoder may stop at the end of the first value where
		// the other refuses the whole data
		claimVariant{"followed-by-a-second-value", append(append([]byte{}, data...), []byte(" 0")...), P},
		claimVariant{"followed-by-a-second-object", append(append([]byte{}, data...), []byte(fmt.Sprintf(`{"ParticipantId":%d}`, S))...), P},
		claimVariant{"followed-by-garbage", append(append([]byte{}, data...), []byte("}x")...), P},
	)
	return out
}

var contributionEvents = map[string]bool{
	string(spf.EventConfirmSignatureProposal): true, string(spf.EventDeclineProposal): true,
	string(dpf.EventDKGCommitConfirmationReceived): true, string(dpf.EventDKGCommitConfirmationError): true,
	string(dpf.EventDKGDealConfirmationReceived): true, string(dpf.EventDKGDealConfirmationError): true,
	string(dpf.EventDKGResponseConfirmationReceived): true, string(dpf.EventDKGResponseConfirmationError): true,
	string(dpf.EventDKGMasterKeyConfirmationReceived): true, string(dpf.EventDKGMasterKeyConfirmationError): true,
	string(sif.EventSigningPartialSignReceived): true, string(sif.EventSigningPartialSignError): true,
	string(sif.EventSigningStart): true,
}

// errorTwin maps a deliver event to the failure event of the same step (cross-step replay).
var stepEvents = []string{
	string(spf.EventConfirmSignatureProposal), string(spf.EventDeclineProposal),
	string(dpf.EventDKGCommitConfirmationReceived), string(dpf.EventDKGCommitConfirmationError),
	string(dpf.EventDKGDealConfirmationReceived), string(dpf.EventDKGDealConfirmationError),
	string(dpf.EventDKGResponseConfirmationReceived), string(dpf.EventDKGResponseConfirmationError),
	string(dpf.EventDKGMasterKeyConfirmationReceived), string(dpf.EventDKGMasterKeyConfirmationError),
	string(sif.EventSigningPartialSignReceived), string(sif.EventSigningPartialSignError),
	string(sif.EventSigningStart), string(types.SignatureReconstructed), string(types.SignatureReconstructionFailed),
}

var phaseOfEvent = map[string]int{
	string(spf.EventConfirmSignatureProposal): 0, string(spf.EventDeclineProposal): 0,
	string(dpf.EventDKGCommitConfirmationReceived): 1, string(dpf.EventDKGCommitConfirmationError): 1,
	string(dpf.EventDKGDealConfirmationReceived): 2, string(dpf.EventDKGDealConfirmationError): 2,
	string(dpf.EventDKGResponseConfirmationReceived): 3, string(dpf.EventDKGResponseConfirmationError): 3,
	string(dpf.EventDKGMasterKeyConfirmationReceived): 4, string(dpf.EventDKGMasterKeyConfirmationError): 4,
}

func c10(tier string, args []string) int {
	r := newRun("C10", tier, "exploration")
	cfgs := []ntPair{{3, 2}}
	if tier == "thorough" {
		cfgs = []ntPair{{2, 2}, {3, 2}, {3, 3}, {4, 3}}
	}
	r.Assume = []string{
		"base states as in C09 (every prefix of a recorded ceremony x pre-step variants)",
		"impersonation: the genuine contribution of P re-sent with sender S and S's valid signature; replay: recorded messages re-posted unchanged under another round id / event name",
	}
	evals := 0
	classes := map[string]bool{}
	for _, nt := range cfgs {
		rec := getRecording(r, nt.n, nt.t)
		w := rec.W
		views := []int{0, nt.n - 1}
		// a second round with the same participants, opened on the same board (for cross-round replay)
		idx := make([]int, w.N)
		for i := range idx {
			idx[i] = i
		}
		req2 := w.InitProposal(w.T, idx)
		req2.CreatedAt = world.T0.Add(7)
		p2 := world.MustJSON(req2)
		round2 := world.RoundID(p2)
		init2 := world.SignedMessage(round2, string(spf.EventInitProposal), p2, w.Nodes[0].Name, w.Nodes[0].KeyPair.Priv, "")
		for _, v := range views {
			lab, err := NewLabFor(w, v)
			if err != nil {
				r.Infra("lab: %v", err)
			}
			for _, bs := range baseStates(r, rec, lab, v) {
				if r.TimeUp() {
					break
				}
				bs.Snap = bs.Materialize(lab)
				// ---- (1) impersonation of the participant whose contribution comes next
				if bs.K < len(rec.Log) {
					// every genuine contribution still ahead in the same phase is "awaited"
					for j := bs.K; j < len(rec.Log) && j < bs.K+3*nt.n; j++ {
						g := rec.Log[j]
						if !addressed(rec, v, g) || !contributionEvents[g.Event] {
							continue
						}
						pp := claimedParticipant(g.Data)
						if pp == nil {
							continue
						}
						P := *pp
						for S := 0; S < nt.n; S++ {
							if w.Nodes[S].Name == g.SenderAddr {
								continue
							}
							// the claim is expressed in every way the two JSON decoders involved
							// (the binding check and the typed request) could read differently
							for _, cv := range claimVariants(g.Data, P, S) {
								if cv.Target == S {
									continue // S speaking for itself is S's right
								}
								mm := g
								mm.Data = cv.Data
								mm.SenderAddr = w.Nodes[S].Name
								mm.Signature = ed25519.Sign(w.Nodes[S].KeyPair.Priv, mm.Bytes())
								before := participantRecord(bs.Snap.Dump(rec.Round), cv.Target)
								err, after, _ := lab.Step(bs.Snap, mm)
								evals++
								classes["imp|"+bs.Phase+"|"+g.Event+"|"+cv.Name] = true
								if got := participantRecord(after.Dump(rec.Round), cv.Target); got != before {
									trace := map[string]interface{}{"n": nt.n, "t": nt.t, "base": bs.String(), "genuine_offset": j, "event": g.Event, "claim": cv.Name, "data": string(cv.Data), "effective_participant": cv.Target, "signed_and_sent_by": S}
									key := "C10/impersonation/" + g.Event
									if cv.Name != "explicit" {
										key = "C10/impersonation-claim-" + cv.Name + "/" + g.Event
									}
									r.Violation(key, fmt.Sprintf("in %s a %s (participant id %s) speaking for participant %d but sent and signed by participant %d changed participant %d's record (error: %v)", bs, g.Event, cv.Name, cv.Target, S, cv.Target, err), trace)
								}
								if evals < 3 {
									r.Sample(map[string]interface{}{"kind": "impersonation", "base": bs.String(), "event": g.Event, "claimed": cv.Target, "claim": cv.Name, "signer": S})
								}
							}
						}
					}
				}
				// ---- (1b) the reinitialisation message is unauthenticated by design (its effect on the
				// round it names is confirmed out of band by hash); it must not be a vehicle for
				// changing ANOTHER, existing round: (i) forged contributions for this round embedded
				// in a reinit of a fresh round, (ii) a reinit of a fresh round posted under this
				// round's id
				if bs.Pre == "none" && bs.K >= 1 {
					var parts []types.Participant
					for pi, nd := range w.Nodes {
						parts = append(parts, types.Participant{DKGPubKey: w.Airs[pi].PubKeyBytes(), OldCommPubKey: nd.KeyPair.Pub, NewCommPubKey: nd.KeyPair.Pub, Name: nd.Name})
					}
					fresh := strings.Repeat("ab", 16)
					roundBefore := string(bs.Snap.Rounds()[rec.Round])
					var embed []storage.Message
					for j := bs.K; j < len(rec.Log) && j < bs.K+3*nt.n; j++ {
						g := rec.Log[j]
						if addressed(rec, v, g) && contributionEvents[g.Event] && claimedParticipant(g.Data) != nil && g.SenderAddr != w.Nodes[v].Name {
							g.Signature = nil
							embed = append(embed, g)
						}
					}
					for _, in := range lab.DKGAlphabet() {
						if in.Fail && in.Variant == "valid" && in.PID >= 0 && in.PID < nt.n && in.PID != v {
							m := in.Msg
							m.Signature = nil
							embed = append(embed, m)
						}
					}
					for _, fm := range embed {
						re := types.ReDKG{DKGID: fresh, Threshold: nt.t, Participants: parts, Messages: []storage.Message{fm}}
						mm := storage.Message{DkgRoundID: fresh, Event: string(types.ReinitDKG), Data: world.MustJSON(re), SenderAddr: "anyone"}
						err, after, _ := lab.Step(bs.Snap, mm)
						evals++
						classes["reinit-embedded|"+bs.Phase+"|"+fm.Event] = true
						if got := string(after.Rounds()[rec.Round]); got != roundBefore {
							r.Violation("C10/via-reinit-of-another-round/"+fm.Event, fmt.Sprintf("in %s an unsigned %s in %s's name for this round, embedded in an (unauthenticated) reinitialisation message of another, fresh round, changed this round: now %s (error: %v)", bs, fm.Event, fm.SenderAddr, after.RoundState(rec.Round), err), map[string]interface{}{"n": nt.n, "t": nt.t, "base": bs.String(), "embedded_event": fm.Event, "in_the_name_of": fm.SenderAddr, "reinit_round": fresh})
						}
					}
					// (iii) a reinit of a fresh round addressed to this node alone: what the other
					// participants never see cannot be confirmed by them out of band
					{
						re := types.ReDKG{DKGID: fresh, Threshold: nt.t, Participants: parts, Messages: replayedWithPatches(w, fresh)}
						mm := storage.Message{DkgRoundID: fresh, Event: string(types.ReinitDKG), Data: world.MustJSON(re), SenderAddr: "anyone", RecipientAddr: w.Nodes[v].Name}
						err, after, _ := lab.Step(bs.Snap, mm)
						evals++
						classes["reinit-addressed|"+bs.Phase] = true
						if _, opened := after.Rounds()[fresh]; opened || len(changedProtected(bs.Snap, after)) > 0 {
							r.Violation("C10/reinit-addressed-to-one-node", fmt.Sprintf("in %s an (unauthenticated) reinitialisation message addressed to this node alone was acted on: round %s opened=%v, changed %v (error: %v)", bs, fresh[:8], opened, changedProtected(bs.Snap, after), err), map[string]interface{}{"n": nt.n, "t": nt.t, "base": bs.String(), "reinit_round": fresh})
						}
					}
					re := types.ReDKG{DKGID: fresh, Threshold: nt.t, Participants: parts}
					mm := storage.Message{DkgRoundID: rec.Round, Event: string(types.ReinitDKG), Data: world.MustJSON(re), SenderAddr: "anyone"}
					err, after, _ := lab.Step(bs.Snap, mm)
					evals++
					classes["reinit-envelope|"+bs.Phase] = true
					if got := string(after.Rounds()[rec.Round]); got != roundBefore {
						r.Violation("C10/reinit-posted-under-another-rounds-id", fmt.Sprintf("in %s an (unauthenticated) reinitialisation message of a fresh round %s posted under this round's id replaced this round's state: now %q (error: %v)", bs, fresh[:8], after.RoundState(rec.Round), err), map[string]interface{}{"n": nt.n, "t": nt.t, "base": bs.String(), "reinit_round": fresh})
					}
				}
				// ---- (1c) an opening proposal (never verified: it brings the keys) posted under this
				// round's id with white space around it - the genuine one again, and a stranger's
				// with other keys: whatever round it opens, this round's record stays as it is
				for _, label := range []string{" %s", "%s ", "\t%s\n"} {
					if bs.K < 1 {
						break
					}
					roundBefore := string(bs.Snap.Rounds()[rec.Round])
					id2 := fmt.Sprintf(label, rec.Round)
					genuine := rec.Log[0]
					genuine.DkgRoundID = id2
					var strangers []*requests.SignatureProposalParticipantsEntry
					for i := 0; i < nt.n; i++ {
						strangers = append(strangers, &requests.SignatureProposalParticipantsEntry{Username: w.Nodes[i].Name, PubKey: freshKey(fmt.Sprintf("stranger-%d", i)).Public().(ed25519.PublicKey), DkgPubKey: w.Airs[i].PubKeyBytes()})
					}
					forged := storage.Message{DkgRoundID: id2, Event: string(spf.EventInitProposal), SenderAddr: "stranger",
						Data: world.MustJSON(requests.SignatureProposalParticipantsListRequest{Participants: strangers, SigningThreshold: nt.t, CreatedAt: world.T0})}
					for which, mm := range map[string]storage.Message{"genuine-proposal-again": genuine, "strangers-proposal": forged} {
						err, after, _ := lab.Step(bs.Snap, mm)
						evals++
						classes["proposal-under-padded-id|"+bs.Phase+"|"+which] = true
						if got := string(after.Rounds()[rec.Round]); got != roundBefore {
							r.Violation("C10/proposal-under-padded-round-id/"+which, fmt.Sprintf("in %s an opening proposal (%s) posted under this round's id with white space around it (%q) replaced this round's record (error: %v)", bs, which, id2, err), map[string]interface{}{"base": bs.String(), "round_id": id2, "which": which})
						}
					}
				}
				// ---- (2) replay of recorded messages into another round / under another event name
				if bs.Pre != "none" {
					continue
				}
				// round 2 is brought (with properly signed placeholder contributions) into the
				// phase the recorded message belongs to, then the recorded message of round 1
				// is re-posted unchanged under round 2's id
				l2 := &Lab{N: nt.n, T: nt.t, Names: lab.Names, Keys: lab.Keys, Round: round2}
				alpha2 := l2.DKGAlphabet()
				phaseSnap := map[int]world.Snapshot{}
				cur2 := bs.Snap
				if _, a, _ := lab.Step(cur2, init2); true {
					cur2 = a
				}
				phaseSnap[0] = cur2
				for ph := 0; ph <= 4; ph++ {
					for _, in := range alpha2 {
						if in.Phase == ph && !in.Fail && in.Variant == "valid" && in.PID >= 0 && in.PID < nt.n {
							_, a, _ := lab.Step(cur2, in.Msg)
							cur2 = a
						}
					}
					phaseSnap[ph+1] = cur2
				}
				// (2c) failure reports genuinely signed by P for round 1 (the recorded ceremony has
				// none): re-posted under round 2's id, under their own and under every other
				// failure event name of the same request shape
				failAs := map[string][]string{}
				dkgFails := []string{string(dpf.EventDKGCommitConfirmationError), string(dpf.EventDKGDealConfirmationError), string(dpf.EventDKGResponseConfirmationError), string(dpf.EventDKGMasterKeyConfirmationError)}
				for _, e := range dkgFails {
					failAs[e] = dkgFails
				}
				failAs[string(spf.EventDeclineProposal)] = []string{string(spf.EventDeclineProposal)}
				if bs.K == 0 {
					for _, in := range lab.DKGAlphabet() {
						if !in.Fail || in.Variant != "valid" || in.PID < 0 || in.PID >= nt.n || in.PID == v {
							continue
						}
						for _, as := range failAs[string(in.Event)] {
							withSecond := phaseSnap[phaseOfEvent[as]]
							mm := in.Msg
							mm.DkgRoundID = round2
							mm.Event = as
							b2 := string(withSecond.Rounds()[round2])
							err, after, _ := lab.Step(withSecond, mm)
							evals++
							classes["xround-fail|"+string(in.Event)+"|"+as] = true
							if string(after.Rounds()[round2]) != b2 || len(changedProtected(withSecond, after)) > 0 {
								r.Violation("C10/cross-round-replay/"+as, fmt.Sprintf("a %s signed by %s for round %s, re-posted as %s under the id of another round (in %s), took effect there: now %s (error: %v)", in.Event, in.Msg.SenderAddr, rec.Round[:8], as, withSecond.RoundState(round2), after.RoundState(round2), err), map[string]interface{}{"n": nt.n, "t": nt.t, "base": bs.String(), "made_as": string(in.Event), "posted_as": as, "participant": in.PID})
							}
						}
					}
				}
				// (2d) the opening proposal of round 2 (made by participant 0, whose id is also what an
				// absent ParticipantId decodes to) re-posted unchanged under every other event name
				if bs.K == 0 {
					for ph := 0; ph <= 5; ph++ {
						base2 := phaseSnap[ph]
						b2 := string(base2.Rounds()[round2])
						for _, ev := range stepEvents {
							mm := init2
							mm.Event = ev
							err, after, _ := lab.Step(base2, mm)
							evals++
							classes["xstep-init|"+ev] = true
							if string(after.Rounds()[round2]) != b2 || len(changedProtected(base2, after)) > 0 {
								r.Violation("C10/cross-step-replay/"+string(spf.EventInitProposal)+"->"+ev, fmt.Sprintf("the opening proposal of %s (participant 0), re-posted unchanged as %s in the same round (in %s), took effect: now %s (error: %v)", init2.SenderAddr, ev, base2.RoundState(round2), after.RoundState(round2), err), map[string]interface{}{"n": nt.n, "t": nt.t, "view": v, "from": string(spf.EventInitProposal), "as": ev, "round_state": base2.RoundState(round2)})
							}
						}
					}
				}
				seen := map[string]bool{}
				for j := 0; j < bs.K && j < len(rec.Log); j++ {
					g := rec.Log[j]
					if !addressed(rec, v, g) || seen[g.Event+g.SenderAddr] {
						continue
					}
					seen[g.Event+g.SenderAddr] = true
					// (the opening proposal under another round id simply opens that round: only its
					// replay under another event name, (2b), is a replay)
					isInit := g.Event == string(spf.EventInitProposal)
					// (2a) cross-round: unchanged data+signature, other round id
					ph, known := phaseOfEvent[g.Event]
					if !known {
						ph = 5
					}
					withSecond := phaseSnap[ph]
					if g.Event == string(sif.EventSigningPartialSignReceived) {
						// needs a running batch in round 2: replay round 1's proposal first
						for _, x := range rec.Log {
							if x.Event == string(sif.EventSigningStart) {
								x.DkgRoundID = round2
								_, a, _ := lab.Step(withSecond, x)
								withSecond = a
								break
							}
						}
					}
					mm := g
					mm.DkgRoundID = round2
					b2 := string(withSecond.Rounds()[round2])
					err, after, _ := lab.Step(withSecond, mm)
					evals++
					classes["xround|"+g.Event] = true
					if !isInit && (string(after.Rounds()[round2]) != b2 || len(changedProtected(withSecond, after)) > 0) {
						r.Violation("C10/cross-round-replay/"+g.Event, fmt.Sprintf("the recorded %s of %s (made for round %s) re-posted under the id of another round (in %s) took effect there (error: %v)", g.Event, g.SenderAddr, rec.Round[:8], withSecond.RoundState(round2), err), map[string]interface{}{"n": nt.n, "t": nt.t, "base": bs.String(), "recorded_offset": j, "event": g.Event})
					}
					// (2e) the same message once more, unchanged, under its own round and event name, in
					// every later state: it was made for the step it took effect in, not for this one
					{
						err, after, _ := lab.Step(bs.Snap, g)
						evals++
						classes["again|"+g.Event] = true
						if ch := changedProtected(bs.Snap, after); len(ch) > 0 {
							r.Violation("C10/same-message-again/"+g.Event, fmt.Sprintf("in %s the recorded %s of %s (position %d of the log), posted once more unchanged, took effect again: %v (error: %v)", bs, g.Event, g.SenderAddr, j, ch, err), map[string]interface{}{"n": nt.n, "t": nt.t, "base": bs.String(), "recorded_offset": j, "event": g.Event})
						}
					}
					// (2b) cross-step: unchanged data+signature+round, other event name
					for _, ev := range stepEvents {
						if ev == g.Event {
							continue
						}
						mm := g
						mm.Event = ev
						err, after, _ := lab.Step(bs.Snap, mm)
						evals++
						classes["xstep|"+g.Event+"|"+ev] = true
						if ch := changedProtected(bs.Snap, after); len(ch) > 0 {
							r.Violation("C10/cross-step-replay/"+g.Event+"->"+ev, fmt.Sprintf("in %s the recorded %s of %s re-posted as %s took effect: %v (error: %v)", bs, g.Event, g.SenderAddr, ev, ch, err), map[string]interface{}{"n": nt.n, "t": nt.t, "base": bs.String(), "recorded_offset": j, "from": g.Event, "as": ev})
						}
					}
				}
			}
			lab.Node.Stop()
		}
	}
	r.Set("evaluations", evals)
	r.Set("distinct_nontrivial", len(classes))
	cl := make([]string, 0, len(classes))
	for c := range classes {
		cl = append(cl, c)
	}
	sort.Strings(cl)
	if len(cl) > 12 {
		cl = cl[:12]
	}
	r.Set("class_examples", cl)
	r.Set("rule", "(1) for every base state, every genuine contribution still ahead in the log (participant P awaited) is re-sent by every other participant S with S's name and valid signature: P's record in the round must not change; (2) every recorded message is re-posted unchanged under another round's id, under every other event name, and once more as it is in every later state: no effect allowed. distinct = (kind, state, event) classes")
	var _ = fsm.State("")
	var _ storage.Message
	return finish(r)
}
