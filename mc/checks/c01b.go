package checks

// C01, two rounds in one deployment. Node processes stay up over several rounds; the statement is
// about every signature "under THAT round's group public key". Two rounds with different
// participant sets (so: different group keys) are run on the same nodes and machines, and the SAME
// payload is proposed in both, in both orders of the rounds: whatever a node keeps in memory of a
// reconstruction in one round must not show up in the other.

import (
	"bytes"
	"encoding/json"
	"fmt"
	"os"

	"github.com/lidofinance/dc4bc/client/types"
	sif "github.com/lidofinance/dc4bc/fsm/state_machines/signing_proposal_fsm"
	fsmtypes "github.com/lidofinance/dc4bc/fsm/types"

	"verif/mc/kit"
	"verif/mc/oracle"
	"verif/mc/world"
)

func c01TwoRounds(r *kit.Run) int {
	count := 0
	for _, order := range []string{"small-round-signs-first", "large-round-signs-first"} {
		if r.TimeUp() {
			break
		}
		label := "two rounds of one deployment sign the same payload (" + order + ")"
		trace := map[string]interface{}{"scenario": "two-rounds-same-payload", "order": order}
		w, err := world.NewWorld(4)
		if err != nil {
			r.Infra("world: %v", err)
		}
		member := map[string]map[int]bool{} // round id -> participating nodes
		drive := func() {
			for iter := 0; iter < 300; iter++ {
				if err := w.DrainAll(); err != nil {
					r.Infra("%s: %v", label, err)
				}
				cnt := 0
				for i, nd := range w.Nodes {
					for _, op := range nd.PendingOps() {
						if !member[op.DKGIdentifier][i] {
							continue // (a node that is not invited still files the invitation)
						}
						if err := w.Operate(i, op.ID); err != nil {
							r.Infra("%s: node %d, %s: %v", label, i, op.Type, err)
						}
						cnt++
					}
				}
				if cnt == 0 {
					return
				}
			}
			r.Infra("%s: no quiescence", label)
		}
		type round struct {
			id      string
			members []int
			t       int
			key     []byte
		}
		var rounds []*round
		for _, spec := range []struct {
			members []int
			t       int
		}{{[]int{0, 1, 2}, 2}, {[]int{0, 1, 2, 3}, 3}} {
			id, err := w.StartDKGOver(spec.t, 0, spec.members, nil)
			if err != nil {
				r.Infra("%s: StartDKG: %v", label, err)
			}
			member[id] = map[int]bool{}
			for _, i := range spec.members {
				member[id][i] = true
			}
			drive()
			rd := &round{id: id, members: spec.members, t: spec.t}
			for _, i := range spec.members {
				if st := w.Nodes[i].RoundState(id); st != string(sif.StateSigningIdle) {
					r.Infra("%s: node %d ends the key generation of round %s in %s", label, i, id[:8], st)
				}
			}
			krs, err := w.Airs[0].M.GetBLSKeyrings()
			if err != nil || krs[id] == nil {
				r.Infra("%s: no keyring for round %s: %v", label, id[:8], err)
			}
			rd.key, err = oracle.GroupKeyBytes(krs[id])
			if err != nil {
				r.Infra("group key: %v", err)
			}
			rounds = append(rounds, rd)
		}
		if bytes.Equal(rounds[0].key, rounds[1].key) {
			r.Infra("%s: the two rounds have the same group key; the scenario shows nothing", label)
		}
		payloads := [][]byte{[]byte("the same payload in both rounds"), bytes.Repeat([]byte{0xAB}, 32)}
		seq := []*round{rounds[0], rounds[1]}
		if order == "large-round-signs-first" {
			seq = []*round{rounds[1], rounds[0]}
		}
		for k, rd := range seq {
			w.Propose(rd.members[len(rd.members)-1], rd.id, fmt.Sprintf("same-payload-batch-%d", k), world.SimpleTasks(fmt.Sprintf("sp%d", k), payloads...))
			drive()
		}
		// a participant of the large round only (node 3) posts, under the large round's id and its own
		// valid signature, a reconstruction broadcast whose records name the SMALL round and its
		// batch and messages, with made-up values: the sender is authenticated for the round of the
		// board message alone
		{
			small, large := rounds[0], rounds[1]
			ks := 0
			if seq[0] != small {
				ks = 1
			}
			var forged []fsmtypes.ReconstructedSignature
			for i := range payloads {
				forged = append(forged, fsmtypes.ReconstructedSignature{
					MessageID: fmt.Sprintf("sp%d-msg%d", ks, i), BatchID: fmt.Sprintf("same-payload-batch-%d", ks),
					Signature: bytes.Repeat([]byte{0x42}, 96), SrcPayload: payloads[i], DKGRoundID: small.id, Username: w.Nodes[0].Name,
				})
			}
			nd := w.Nodes[3]
			w.Board.Post(world.SignedMessage(large.id, string(types.SignatureReconstructed), world.MustJSON(forged), nd.Name, nd.KeyPair.Priv, ""))
			drive()
		}
		// every stored and every broadcast signature, under the key of ITS round
		for k, rd := range seq {
			prefix := fmt.Sprintf("sp%d", k)
			want := map[string][]byte{}
			for i, p := range payloads {
				want[fmt.Sprintf("%s-msg%d", prefix, i)] = p
			}
			first := map[string][]byte{}
			judged := 0
			judge := func(where string, e fsmtypes.ReconstructedSignature) {
				p, ok := want[e.MessageID]
				if !ok || len(e.Signature) == 0 {
					return
				}
				judged++
				if err := oracle.VerifyETH(rd.key, p, e.Signature); err != nil {
					r.Violation("C01/invalid-signature/second-round-of-the-deployment", fmt.Sprintf("%s: %s holds for message %s of round %s (n=%d t=%d) a value that is not a signature of the proposed payload under that round's group key: %v", label, where, e.MessageID, rd.id[:8], len(rd.members), rd.t, err), trace)
				}
				if f, ok := first[e.MessageID]; !ok {
					first[e.MessageID] = e.Signature
				} else if !bytes.Equal(f, e.Signature) {
					r.Violation("C01/nodes-disagree/second-round-of-the-deployment", fmt.Sprintf("%s: two different values are held for message %s of round %s", label, e.MessageID, rd.id[:8]), trace)
				}
			}
			for _, i := range rd.members {
				st := w.Nodes[i].Mem.Snapshot().Signatures(rd.id)
				n := 0
				for _, msgs := range st {
					for _, entries := range msgs {
						for _, e := range entries {
							judge(fmt.Sprintf("the store of node %d", i), e)
							if len(e.Signature) > 0 {
								n++
							}
						}
					}
				}
				if n == 0 {
					r.Violation("C01/no-signature-stored/second-round-of-the-deployment", fmt.Sprintf("%s: node %d stored no signature for round %s", label, i, rd.id[:8]), trace)
				}
			}
			for _, m := range w.Board.Log() {
				if m.Event != string(types.SignatureReconstructed) || m.DkgRoundID != rd.id {
					continue
				}
				var es []fsmtypes.ReconstructedSignature
				if json.Unmarshal(m.Data, &es) != nil {
					continue
				}
				for _, e := range es {
					judge("the broadcast of "+m.SenderAddr, e)
				}
			}
			r.Add("two_round_signatures_judged", judged)
		}
		count++
		w.Close()
		for _, a := range w.Airs {
			_ = os.RemoveAll(a.Dir)
		}
	}
	return count
}
