package checks

// C16, handle histories: every sequence (within stated budgets) of appends, reads from every
// offset, ignore-by-id, ignore-by-offset and unignore on ONE long-lived handle, next to a second
// long-lived handle that appends and reads - judged against a reference model (a list and two
// sets) after every prefix. A handle's hidden state (file positions, whatever it remembers of
// earlier reads) is not restorable, so a state of this search is the history reaching it: every
// history is executed from an empty board on fresh handles, and then EVERY read offset is asked
// of the long-lived handles and of a fresh one.

import (
	"encoding/json"
	"fmt"
	"io"
	"os"
	"path/filepath"
	"strconv"
	"strings"
	"sync"
	"sync/atomic"
	"time"

	"github.com/lidofinance/dc4bc/storage"
	"github.com/lidofinance/dc4bc/storage/file_storage"

	"verif/mc/world"
)

// histReporter is what the history search needs of a run (kit.Run in-process; a collecting
// stand-in when the search runs in a process of its own next to the schedule explorations, whose
// scheduler is process-wide).
type histReporter interface {
	Violation(key, what string, replay interface{})
	TimeUp() bool
	Infra(format string, a ...interface{})
	Cap(why string)
	Set(key string, v interface{})
}

type c16HistResult struct {
	Violations []struct {
		Key, What string
		Replay    interface{}
	}
	Sets  map[string]interface{}
	Caps  []string
	Infra string
}

type histCollector struct {
	mu       sync.Mutex
	res      c16HistResult
	deadline time.Time
	out      io.Writer
}

func (h *histCollector) Violation(key, what string, replay interface{}) {
	h.mu.Lock()
	defer h.mu.Unlock()
	h.res.Violations = append(h.res.Violations, struct {
		Key, What string
		Replay    interface{}
	}{key, what, replay})
}
func (h *histCollector) TimeUp() bool { return time.Now().After(h.deadline) }
func (h *histCollector) Infra(format string, a ...interface{}) {
	h.mu.Lock()
	h.res.Infra = fmt.Sprintf(format, a...)
	bz, _ := json.Marshal(&h.res)
	fmt.Fprintln(h.out, string(bz))
	os.Exit(3)
}
func (h *histCollector) Cap(why string) {
	h.mu.Lock()
	h.res.Caps = append(h.res.Caps, why)
	h.mu.Unlock()
}
func (h *histCollector) Set(key string, v interface{}) {
	h.mu.Lock()
	h.res.Sets[key] = v
	h.mu.Unlock()
}

// C16HistoriesChild runs the history search in this process and prints its result as one JSON line.
func C16HistoriesChild(tier string, out io.Writer) int {
	budget := 7 * time.Minute
	if tier == "thorough" {
		budget = 40 * time.Minute
	}
	if v := os.Getenv("VERIF_BUDGET_S"); v != "" { // (the parent's budget, minus the time it needs to wind up)
		if secs, err := strconv.Atoi(v); err == nil && time.Duration(secs)*time.Second-time.Minute < budget {
			budget = time.Duration(secs)*time.Second - time.Minute
			if budget < 30*time.Second {
				budget = 30 * time.Second
			}
		}
	}
	h := &histCollector{deadline: time.Now().Add(budget), out: out}
	h.res.Sets = map[string]interface{}{}
	c16Histories(h, tier)
	world.Cleanup()
	bz, _ := json.Marshal(&h.res)
	fmt.Fprintln(out, string(bz))
	return 0
}

type c16Op struct {
	Kind string // sendA sendB getA getB ignoreId ignoreOff unignore
	K    int    // position / offset
}

func (o c16Op) String() string {
	switch o.Kind {
	case "sendA", "sendB", "unignore":
		return o.Kind
	}
	return fmt.Sprintf("%s(%d)", o.Kind, o.K)
}

type c16Budget struct{ Sends, Ignores, Unignores, Gets, Depth int }

// c16HistEnabled lists the operations that may follow a history (model state: log length).
func c16HistEnabled(h []c16Op, b c16Budget) []c16Op {
	if len(h) >= b.Depth {
		return nil
	}
	n, sends, ign, unign, gets := 0, 0, 0, 0, 0
	for _, o := range h {
		switch o.Kind {
		case "sendA", "sendB":
			n++
			sends++
		case "ignoreId", "ignoreOff":
			ign++
		case "unignore":
			unign++
		case "getA", "getB":
			gets++
		}
	}
	var out []c16Op
	if sends < b.Sends {
		out = append(out, c16Op{Kind: "sendA"}, c16Op{Kind: "sendB"})
	}
	if gets < b.Gets {
		for k := 0; k <= n; k++ {
			out = append(out, c16Op{"getA", k})
		}
		if n > 0 {
			out = append(out, c16Op{"getB", n - 1})
		}
	}
	if ign < b.Ignores {
		for k := 0; k < n; k++ {
			out = append(out, c16Op{"ignoreId", k})
		}
		for k := 0; k <= n; k++ { // an offset may be ignored before anything stands there
			out = append(out, c16Op{"ignoreOff", k})
		}
	}
	if unign < b.Unignores && ign > 0 {
		out = append(out, c16Op{Kind: "unignore"})
	}
	return out
}

// c16RunHistory executes a history on the real board and returns the first disagreement with the
// reference model ("" if none).
func c16RunHistory(r histReporter, h []c16Op) (key, what string) {
	dir := filepath.Join(world.Scratch(), fmt.Sprintf("c16h-%d", atomic.AddInt64(&c16seq, 1)))
	_ = os.MkdirAll(dir, 0o755)
	defer os.RemoveAll(dir)
	file, lock := filepath.Join(dir, "f"), filepath.Join(dir, "l")
	open := func() storage.Storage {
		st, err := file_storage.NewFileStorage(file, lock)
		if err != nil {
			r.Infra("NewFileStorage: %v", err)
		}
		return st
	}
	a, b := open(), open()
	defer a.Close()
	defer b.Close()
	// reference model
	var tags []string
	ignId, ignOff := map[int]bool{}, map[int]bool{} // by position of the entry named / by offset
	rawIDs := func() []string {
		raw, _ := os.ReadFile(file)
		var ids []string
		for _, l := range strings.Split(strings.TrimSuffix(string(raw), "\n"), "\n") {
			var m struct {
				ID string `json:"id"`
			}
			_ = json.Unmarshal([]byte(l), &m)
			ids = append(ids, m.ID)
		}
		return ids
	}
	expect := func(from int, withIgnores bool) []string {
		out := []string{}
		for p := from; p < len(tags); p++ {
			if withIgnores && (ignId[p] || ignOff[p]) {
				continue
			}
			out = append(out, fmt.Sprintf("%d=%s", p, tags[p]))
		}
		return out
	}
	read := func(hd storage.Storage, from int) ([]string, error) {
		ms, err := hd.GetMessages(uint64(from))
		if err != nil {
			return nil, err
		}
		out := []string{}
		for _, m := range ms {
			out = append(out, fmt.Sprintf("%d=%s", m.Offset, tagOf(m)))
		}
		return out, nil
	}
	judge := func(who string, hd storage.Storage, from int, withIgnores bool, step string) (string, string) {
		got, err := read(hd, from)
		if err != nil {
			return "read-fails", fmt.Sprintf("%s: GetMessages(%d) on %s fails: %v", step, from, who, err)
		}
		want := expect(from, withIgnores)
		if fmt.Sprint(got) != fmt.Sprint(want) {
			return "read-differs-from-log", fmt.Sprintf("%s: GetMessages(%d) on %s returned %v, the log from there (minus ignored) is %v", step, from, who, got, want)
		}
		return "", ""
	}
	for i, o := range h {
		step := fmt.Sprintf("step %d %s", i, o)
		switch o.Kind {
		case "sendA", "sendB":
			hd, who := a, "A"
			if o.Kind == "sendB" {
				hd, who = b, "B"
			}
			tag := fmt.Sprintf("%s%d", strings.ToLower(who), len(tags))
			if err := hd.Send(storage.Message{Data: []byte(tag), Event: "e", SenderAddr: who}); err != nil {
				return "send-fails", fmt.Sprintf("%s: %v", step, err)
			}
			tags = append(tags, tag)
		case "getA":
			if k, w := judge("the long-lived handle A", a, o.K, true, step); k != "" {
				return k, w
			}
		case "getB":
			if k, w := judge("the long-lived handle B", b, o.K, false, step); k != "" {
				return k, w
			}
		case "ignoreId":
			ids := rawIDs()
			if o.K >= len(ids) {
				r.Infra("history names entry %d of %d", o.K, len(ids))
			}
			if err := a.IgnoreMessages([]string{ids[o.K]}, false); err != nil {
				return "ignore-fails", fmt.Sprintf("%s: %v", step, err)
			}
			ignId[o.K] = true
		case "ignoreOff":
			if err := a.IgnoreMessages([]string{fmt.Sprint(o.K)}, true); err != nil {
				return "ignore-fails", fmt.Sprintf("%s: %v", step, err)
			}
			ignOff[o.K] = true
		case "unignore":
			a.UnignoreMessages()
			ignId, ignOff = map[int]bool{}, map[int]bool{}
		}
	}
	// every read offset, on both long-lived handles and on a fresh one; the long-lived ones
	// twice, descending and ascending (a read may move what the handle remembers)
	for k := len(tags) + 1; k >= 0; k-- {
		if key, w := judge("the long-lived handle A", a, k, true, "afterwards"); key != "" {
			return key, w
		}
	}
	for k := 0; k <= len(tags)+1; k++ {
		if key, w := judge("the long-lived handle A", a, k, true, "afterwards (second pass)"); key != "" {
			return key, w
		}
		if key, w := judge("the long-lived handle B", b, k, false, "afterwards"); key != "" {
			return key, w
		}
	}
	f := open()
	defer f.Close()
	for k := 0; k <= len(tags)+1; k++ {
		if key, w := judge("a fresh handle", f, k, false, "afterwards"); key != "" {
			return key, w
		}
	}
	raw, _ := os.ReadFile(file)
	if p, off, bad := rawOffsetMismatch(string(raw)); bad {
		return "offset-is-not-position", fmt.Sprintf("the line at position %d of the board file was written with offset %d", p, off)
	}
	return "", ""
}

// c16Histories enumerates the histories breadth-first in parallel; returns how many were run.
func c16Histories(r histReporter, tier string) int {
	b := c16Budget{Sends: 3, Ignores: 2, Unignores: 1, Gets: 1, Depth: 6}
	if tier == "thorough" {
		b = c16Budget{Sends: 4, Ignores: 2, Unignores: 1, Gets: 3, Depth: 8}
	}
	frontier := [][]c16Op{{}}
	total := 0
	var reported sync.Map
	for depth := 0; len(frontier) > 0 && !r.TimeUp(); depth++ {
		var next [][]c16Op
		var mu sync.Mutex
		var wg sync.WaitGroup
		jobs := make(chan []c16Op, 256)
		for w := 0; w < 16; w++ {
			wg.Add(1)
			go func() {
				defer wg.Done()
				for h := range jobs {
					key, what := c16RunHistory(r, h)
					if key != "" {
						// successors of a failing history fail the same way: not explored
						if _, dup := reported.LoadOrStore(key, true); !dup {
							var names []string
							for _, o := range h {
								names = append(names, o.String())
							}
							r.Violation("C16/"+key+"/handle-history", fmt.Sprintf("history %v: %s", names, what), map[string]interface{}{"history": names})
						}
						continue
					}
					var succ [][]c16Op
					for _, o := range c16HistEnabled(h, b) {
						succ = append(succ, append(append([]c16Op{}, h...), o))
					}
					mu.Lock()
					next = append(next, succ...)
					mu.Unlock()
				}
			}()
		}
		for _, h := range frontier {
			if r.TimeUp() {
				r.Cap("handle histories: time")
				break
			}
			jobs <- h
			total++
		}
		close(jobs)
		wg.Wait()
		frontier = next
	}
	r.Set("handle_histories", total)
	r.Set("handle_history_budget", fmt.Sprintf("appends<=%d (each through handle A or B), ignore operations<=%d (by id of any entry, by any offset incl. the next free one), unignore<=%d, reads in the history<=%d (any offset), length<=%d; afterwards every offset is read on both long-lived handles and a fresh one", b.Sends, b.Ignores, b.Unignores, b.Gets, b.Depth))
	return total
}
