package checks

import (
	"bytes"
	"encoding/hex"
	"encoding/json"
	"errors"
	"fmt"
	"strconv"
	"strings"
	"sync"
	"time"

	"github.com/lidofinance/dc4bc/client/types"
	sif "github.com/lidofinance/dc4bc/fsm/state_machines/signing_proposal_fsm"
	fsmtypes "github.com/lidofinance/dc4bc/fsm/types"
	"github.com/lidofinance/dc4bc/fsm/types/requests"
	"github.com/lidofinance/dc4bc/pkg/wc_rotation"
	"github.com/lidofinance/dc4bc/storage"

	"verif/mc/kit"
	"verif/mc/oracle"
	"verif/mc/world"
	"verif/mc/worldx"
)

// Batch is a signing proposal of the exploration alphabet.
type Batch struct {
	ID    string
	Tasks []requests.SigningTask
}

// RefMsg is the reference expansion of one message of a batch (written for the harness, not
// taken from requests.TasksToMessages).
type RefMsg struct {
	ID      string
	File    string
	Payload []byte
	Baked   bool
	ValIdx  int64
}

var bakedOnce sync.Once
var bakedList []string

// BakedList parses the embedded validator list independently (split on newlines).
func BakedList() []string {
	bakedOnce.Do(func() { bakedList = strings.Split(wc_rotation.ValidatorsIndexes, "\n") })
	return bakedList
}

// RefExpand expands tasks: explicit payload = its bytes; range = spec signing roots.
func RefExpand(tasks []requests.SigningTask) ([]RefMsg, error) {
	var out []RefMsg
	for _, t := range tasks {
		if t.Payload != nil {
			out = append(out, RefMsg{ID: t.MessageID, File: t.File, Payload: t.Payload})
			continue
		}
		for p := t.RangeStart; p < t.RangeEnd; p++ {
			l := BakedList()
			if p < 0 || p >= len(l) {
				return nil, fmt.Errorf("position %d outside the baked list", p)
			}
			idx, err := strconv.ParseUint(l[p], 10, 64)
			if err != nil {
				return nil, fmt.Errorf("position %d is not an index: %q", p, l[p])
			}
			root := oracle.SpecSigningRoot(idx)
			out = append(out, RefMsg{ID: l[p], File: fmt.Sprintf("bakedrange%d", p), Payload: root[:], Baked: true, ValIdx: int64(idx)})
		}
	}
	return out, nil
}

// SignCfg parametrises the signing-phase exploration.
type SignCfg struct {
	N, T      int
	Batches   []Batch
	Proposers []int // nodes allowed to propose (nil: node 0 only)
	Lag       []int // nodes whose polls are explicit actions; all others poll eagerly
	Silent    []int // participants whose operator never answers signing operations
	// Truncating participants answer with partial signatures for the FIRST message of the batch
	// only (valid shares, incomplete list) — a Byzantine but properly signed contribution
	Truncating []int
	// Failing participants' operators report a signing error instead of partial signatures
	Failing []int
	// FailingFirst participants report a signing error for the FIRST batch only (a machine that
	// was not ready yet) and answer every later batch correctly
	FailingFirst []int
	MaxStates    int
	// Outsider: right after every proposal somebody who is not a participant posts reconstruction
	// broadcasts for that batch with made-up signature values - once under a name nobody
	// registered, once under participant 0's name with a signature that is not participant 0's
	Outsider bool
	// LagWhole: a lagging node's poll action consumes everything outstanding (one real tick over
	// the whole backlog) instead of one message - coarser, so that ALL nodes can lag
	LagWhole bool
	// ProposerAhead: the proposer's clock is this far ahead of the answering nodes' (the proposal
	// is stamped by the proposer's node, every answer by the answering node)
	ProposerAhead time.Duration
}

var junkSig = bytes.Repeat([]byte{0x42}, 64)

// isOutsiderJunk recognises the harness's own junk broadcasts (the oracle judges what the nodes
// make of them, not the junk itself).
func isOutsiderJunk(m storage.Message) bool {
	return m.Event == "signature_reconstructed" && (m.SenderAddr == "mallory" || bytes.Equal(m.Signature, junkSig))
}

// outsiderJunk builds the two junk broadcasts for batch b of round.
func outsiderJunk(round string, b Batch, victim string) []storage.Message {
	ref, err := RefExpand(b.Tasks)
	if err != nil {
		return nil
	}
	var sigs []fsmtypes.ReconstructedSignature
	for _, m := range ref {
		sigs = append(sigs, fsmtypes.ReconstructedSignature{File: m.File, BatchID: b.ID, MessageID: m.ID, SrcPayload: m.Payload, Signature: bytes.Repeat([]byte{0x17}, 96), ValIdx: m.ValIdx})
	}
	data, _ := json.Marshal(sigs)
	return []storage.Message{
		{DkgRoundID: round, Event: "signature_reconstructed", Data: data, SenderAddr: "mallory"},
		{DkgRoundID: round, Event: "signature_reconstructed", Data: data, SenderAddr: victim, Signature: junkSig},
	}
}

func (c SignCfg) String() string {
	var ids []string
	for _, b := range c.Batches {
		ids = append(ids, b.ID)
	}
	extra := ""
	if len(c.Truncating) > 0 {
		extra = fmt.Sprintf(" truncating=%v", c.Truncating)
	}
	if len(c.FailingFirst) > 0 {
		extra += fmt.Sprintf(" failing-first-batch=%v", c.FailingFirst)
	}
	if c.Outsider {
		extra += " outsider-junk"
	}
	if c.LagWhole {
		extra += " whole-backlog-polls"
	}
	if len(c.Failing) > 0 {
		extra += fmt.Sprintf(" failing=%v", c.Failing)
	}
	return fmt.Sprintf("n=%d t=%d batches=%v proposers=%v lag=%v silent=%v%s", c.N, c.T, ids, c.Proposers, c.Lag, c.Silent, extra)
}

// SignWorld is a set of worker worlds that all completed the same real DKG.
type SignWorld struct {
	N, T     int
	Ctx      *worldx.Ctx
	Workers  []*worldx.Worker
	Init     *worldx.State
	Round    string
	GroupKey []byte
}

// SetupSignWorld runs a complete honest DKG on `workers` independent worlds and checks that
// they reached byte-identical states (determinism self-test of the harness).
func SetupSignWorld(r *kit.Run, n, t, workers int) *SignWorld {
	sw := &SignWorld{N: n, T: t, Ctx: worldx.NewCtx(n)}
	w0, err := world.NewWorld(n)
	if err != nil {
		r.Infra("world: %v", err)
	}
	rd, err := w0.RunDKG(t)
	if err != nil {
		r.Infra("honest DKG (n=%d,t=%d) did not complete: %v", n, t, err)
	}
	// Deal ciphertexts are randomised (ECIES ephemeral keys from crypto/rand inside kyber), so
	// two independent ceremonies differ byte-wise; the other workers are CLONES of world 0.
	ws := []*world.World{w0}
	for i := 1; i < workers; i++ {
		c, err := w0.Clone(rd)
		if err != nil {
			r.Infra("clone world: %v", err)
		}
		ws = append(ws, c)
	}
	type res struct {
		k *worldx.Worker
		s *worldx.State
	}
	var out []res
	for _, w := range ws {
		k := worldx.NewWorker(sw.Ctx, w)
		out = append(out, res{k, k.Capture()})
		sw.Workers = append(sw.Workers, k)
	}
	for i := range out {
		if out[i].s.Key() != out[0].s.Key() {
			r.Infra("cloned world %d differs from world 0", i)
		}
	}
	sw.Round = rd
	sw.Init = out[0].s
	krs, err := out[0].k.W.Airs[0].M.GetBLSKeyrings()
	if err != nil || krs[sw.Round] == nil {
		r.Infra("no keyring after DKG: %v", err)
	}
	sw.GroupKey, _ = oracle.GroupKeyBytes(krs[sw.Round])
	return sw
}

func (sw *SignWorld) Close() {
	for _, k := range sw.Workers {
		k.W.Close()
	}
}

func contains(l []int, x int) bool {
	for _, v := range l {
		if v == x {
			return true
		}
	}
	return false
}

// proposalsIn lists the batch ids proposed in a log (in order).
func proposalsIn(log []storage.Message) []string {
	var out []string
	for _, m := range log {
		if m.Event == string(sif.EventSigningStart) {
			var req requests.SigningBatchProposalStartRequest
			if json.Unmarshal(m.Data, &req) == nil {
				out = append(out, req.BatchID)
			}
		}
	}
	return out
}

// Model builds the worldx model of the signing phase.
func (sw *SignWorld) Model(cfg SignCfg, check func(k *worldx.Worker, s *worldx.State) error, stop func() bool) worldx.Model {
	proposers := cfg.Proposers
	if proposers == nil {
		proposers = []int{0}
	}
	var eager []int
	for i := 0; i < sw.N; i++ {
		if !contains(cfg.Lag, i) {
			eager = append(eager, i)
		}
	}
	settle := func(k *worldx.Worker, c *worldx.State) (*worldx.State, error) {
		if len(eager) == 0 {
			return c, nil
		}
		return k.DrainEager(c, eager)
	}
	return worldx.Model{
		MaxStates: cfg.MaxStates,
		Stop:      stop,
		Check:     check,
		Next: func(k *worldx.Worker, s *worldx.State) ([]*worldx.State, error) {
			var out []*worldx.State
			done := len(proposalsIn(s.Log))
			if done < len(cfg.Batches) {
				b := cfg.Batches[done]
				for _, p := range proposers {
					sn := k.C.Snapshot(s.Snap[p])
					if sn.RoundState(sw.Round) != string(sif.StateSigningIdle) {
						continue // the API refuses a proposal while the proposer's round is busy
					}
					m := k.W.ProposalMessage(p, sw.Round, b.ID, b.Tasks)
					if cfg.ProposerAhead != 0 {
						var req requests.SigningBatchProposalStartRequest
						if err := json.Unmarshal(m.Data, &req); err != nil {
							return nil, err
						}
						req.CreatedAt = world.Clock().Add(cfg.ProposerAhead)
						nd := k.W.Nodes[p]
						m = world.SignedMessage(sw.Round, m.Event, world.MustJSON(req), nd.Name, nd.KeyPair.Priv, "")
					}
					c := k.PostMsg(s, m, fmt.Sprintf("propose %s by %d", b.ID, p))
					if cfg.Outsider {
						for _, j := range outsiderJunk(sw.Round, b, k.W.Nodes[0].Name) {
							c = k.PostMsg(c, j, "junk reconstruction broadcast by "+j.SenderAddr)
						}
					}
					c, err := settle(k, c)
					if err != nil {
						return nil, err
					}
					out = append(out, c)
				}
			}
			for i := 0; i < sw.N; i++ {
				if contains(cfg.Silent, i) {
					continue
				}
				for _, op := range k.Pending(s, i) {
					var mutate func(*types.Operation)
					if contains(cfg.Truncating, i) {
						mutate = truncatePartials
					}
					if contains(cfg.Failing, i) {
						mutate = machineSigningError(k, i, op)
					}
					if contains(cfg.FailingFirst, i) {
						var pl struct{ BatchID string }
						if json.Unmarshal(op.Payload, &pl) == nil && pl.BatchID == cfg.Batches[0].ID {
							mutate = machineSigningError(k, i, op)
						}
					}
					c, apiErr, err := k.OperateOp(s, i, op.ID, mutate)
					if err != nil {
						return nil, err
					}
					if apiErr != nil {
						return nil, fmt.Errorf("node %d refused the genuine result of %s: %v", i, op.Type, apiErr)
					}
					c, err = settle(k, c)
					if err != nil {
						return nil, err
					}
					out = append(out, c)
				}
			}
			for _, j := range cfg.Lag {
				if k.Offset(s, j) < len(s.Log) {
					count := 1
					if cfg.LagWhole {
						count = 0
					}
					c, _, err := k.PollNode(s, j, count)
					if err != nil {
						return nil, err
					}
					out = append(out, c)
				}
			}
			return out, nil
		},
	}
}

// machineSigningError replaces a signing result by the error report machine i itself writes when
// its signing handler fails on op (the product's own error writer, reached through an accessor).
func machineSigningError(k *worldx.Worker, i int, op *types.Operation) func(res *types.Operation) {
	return func(res *types.Operation) {
		er, err := k.W.Airs[i].M.VerifErrorResult(*op, errors.New("cannot sign"))
		if err != nil || len(er.ResultMsgs) == 0 {
			reportSigningError(res, i)
			return
		}
		res.Event = er.Event
		res.ResultMsgs = er.ResultMsgs
	}
}

// reportSigningError turns a signing result into the error report the machine would produce.
func reportSigningError(res *types.Operation, pid int) {
	if len(res.ResultMsgs) == 0 {
		return
	}
	er := requests.SignatureProposalConfirmationErrorRequest{ParticipantId: pid, Error: requests.NewFSMError(errors.New("cannot sign")), CreatedAt: res.CreatedAt}
	res.Event = sif.EventSigningPartialSignError
	m := res.ResultMsgs[0]
	m.Event = string(sif.EventSigningPartialSignError)
	m.Data, _ = json.Marshal(er)
	res.ResultMsgs = res.ResultMsgs[:1]
	res.ResultMsgs[0] = m
}

// truncatePartials keeps only the first partial signature of a signing result.
func truncatePartials(res *types.Operation) {
	for i := range res.ResultMsgs {
		var req requests.SigningProposalBatchPartialSignRequests
		if json.Unmarshal(res.ResultMsgs[i].Data, &req) != nil || len(req.PartialSigns) < 2 {
			continue
		}
		req.PartialSigns = req.PartialSigns[:1]
		res.ResultMsgs[i].Data, _ = json.Marshal(req)
	}
}

// ---------------------------------------------------------------------------------------------
// Signature oracle shared by C01 / C03 / C07.

type sigOracle struct {
	r        *kit.Run
	prop     string
	groupKey []byte
	round    string
	mu       sync.Mutex
	verified map[string]error  // payload|sig -> verdict
	first    map[string]string // batch|msg -> first signature seen (hex)
	refs     map[string]map[string]RefMsg
	Verifs   int
	Checked  int
}

func newSigOracle(r *kit.Run, prop string, groupKey []byte, round string, batches []Batch) *sigOracle {
	o := &sigOracle{r: r, prop: prop, groupKey: groupKey, round: round, verified: map[string]error{}, first: map[string]string{}, refs: map[string]map[string]RefMsg{}}
	for _, b := range batches {
		ref, err := RefExpand(b.Tasks)
		if err != nil {
			r.Infra("batch %s of the alphabet does not expand: %v", b.ID, err)
		}
		m := map[string]RefMsg{}
		for _, x := range ref {
			m[x.ID] = x
		}
		o.refs[b.ID] = m
	}
	return o
}

func (o *sigOracle) verify(payload, sig []byte) error {
	key := hex.EncodeToString(payload) + "|" + hex.EncodeToString(sig)
	o.mu.Lock()
	v, ok := o.verified[key]
	o.mu.Unlock()
	if ok {
		return v
	}
	err := oracle.VerifyETH(o.groupKey, payload, sig)
	o.mu.Lock()
	o.verified[key] = err
	o.Verifs++
	o.mu.Unlock()
	return err
}

// checkEntry judges one reconstructed-signature record (broadcast or stored).
func (o *sigOracle) checkEntry(where string, e fsmtypes.ReconstructedSignature, trace func() interface{}) {
	if len(e.Signature) == 0 {
		return // the proposal's own record carries no signature value
	}
	o.mu.Lock()
	o.Checked++
	o.mu.Unlock()
	ref, ok := o.refs[e.BatchID][e.MessageID]
	if !ok {
		o.r.Violation(o.prop+"/unknown-message", fmt.Sprintf("%s: a signature for message %q of batch %q that was never proposed", where, e.MessageID, e.BatchID), trace())
		return
	}
	if err := o.verify(ref.Payload, e.Signature); err != nil {
		o.r.Violation(o.prop+"/invalid-signature", fmt.Sprintf("%s: signature for batch %s message %s does not verify over the proposed payload under the group key: %v", where, e.BatchID, e.MessageID, err), trace())
		return
	}
	if string(e.SrcPayload) != string(ref.Payload) {
		o.r.Violation(o.prop+"/payload-mismatch", fmt.Sprintf("%s: record for batch %s message %s carries payload %x, proposed %x", where, e.BatchID, e.MessageID, e.SrcPayload, ref.Payload), trace())
	}
	k := e.BatchID + "|" + e.MessageID
	hx := hex.EncodeToString(e.Signature)
	o.mu.Lock()
	f, seen := o.first[k]
	if !seen {
		o.first[k] = hx
	}
	o.mu.Unlock()
	if seen && f != hx {
		o.r.Violation(o.prop+"/signatures-differ", fmt.Sprintf("%s: two different signature values for batch %s message %s: %s vs %s", where, e.BatchID, e.MessageID, f[:16], hx[:16]), trace())
	}
}

// CheckState judges everything new in s relative to its parent: broadcast messages and stores.
func (o *sigOracle) CheckState(k *worldx.Worker, s *worldx.State) {
	p := s.Parent
	from := 0
	if p != nil {
		from = len(p.Log)
	}
	trace := func() interface{} { return s.Trace() }
	for i := from; i < len(s.Log); i++ {
		m := s.Log[i]
		if m.Event != "signature_reconstructed" || isOutsiderJunk(m) {
			continue
		}
		var sigs []fsmtypes.ReconstructedSignature
		if err := json.Unmarshal(m.Data, &sigs); err != nil {
			o.r.Violation(o.prop+"/broadcast-unparsable", fmt.Sprintf("broadcast at offset %d does not parse: %v", i, err), trace())
			continue
		}
		for _, e := range sigs {
			o.checkEntry(fmt.Sprintf("broadcast by %s at offset %d", m.SenderAddr, i), e, trace)
		}
	}
	for i := range s.Snap {
		if p != nil && p.Snap[i] == s.Snap[i] {
			continue
		}
		st := k.C.Snapshot(s.Snap[i]).Signatures(o.round)
		for _, msgs := range st {
			for _, entries := range msgs {
				for _, e := range entries {
					o.checkEntry(fmt.Sprintf("store of node %d (entry by %s)", i, e.Username), e, trace)
				}
			}
		}
	}
}
