package checks

import (
	"bytes"
	"crypto/ed25519"
	"errors"
	"fmt"
	sif "github.com/lidofinance/dc4bc/fsm/state_machines/signing_proposal_fsm"
	"github.com/lidofinance/dc4bc/fsm/types/requests"
	"time"

	"github.com/lidofinance/dc4bc/client/types"
	spf "github.com/lidofinance/dc4bc/fsm/state_machines/signature_proposal_fsm"
	"github.com/lidofinance/dc4bc/storage"

	"verif/mc/kit"
	"verif/mc/world"
)

func init() { Registry["C09"] = c09 }

type mutant struct {
	Label string
	Msg   storage.Message
}

func byteClass(b byte) string {
	switch {
	case b >= '0' && b <= '9':
		return "digit"
	case (b >= 'a' && b <= 'z') || (b >= 'A' && b <= 'Z'):
		return "letter"
	case b == '+' || b == '/' || b == '=':
		return "base64"
	case b == ' ' || b == '\n' || b == '\t':
		return "space"
	case b == '{' || b == '}' || b == '[' || b == ']' || b == ':' || b == ',' || b == '"':
		return "structural"
	default:
		return "other"
	}
}

func replacement(b byte) byte {
	switch byteClass(b) {
	case "digit":
		if b == '9' {
			return '0'
		}
		return b + 1
	case "letter":
		if b == 'z' || b == 'Z' {
			return b - 1
		}
		return b + 1
	case "base64":
		return 'A'
	case "space":
		return '_'
	case "structural":
		return ' '
	}
	return b ^ 1
}

// authMutants builds the C09 mutation alphabet for one genuine message.
func authMutants(rec *world.Recording, m storage.Message) []mutant {
	var out []mutant
	add := func(label string, mm storage.Message) {
		same := string(mm.Data) == string(m.Data) && string(mm.Signature) == string(m.Signature) && mm.SenderAddr == m.SenderAddr
		if !same {
			out = append(out, mutant{label, mm})
		}
	}
	// payload: first / middle / last occurrence of every byte class present
	pos := map[string][]int{}
	for i, b := range m.Data {
		c := byteClass(b)
		pos[c] = append(pos[c], i)
	}
	for _, c := range []string{"structural", "digit", "letter", "base64", "space", "other"} {
		p := pos[c]
		if len(p) == 0 {
			continue
		}
		for _, which := range []int{0, len(p) / 2, len(p) - 1} {
			mm := m
			mm.Data = append([]byte(nil), m.Data...)
			mm.Data[p[which]] = replacement(mm.Data[p[which]])
			add(fmt.Sprintf("payload:%s@%d", c, p[which]), mm)
		}
	}
	mmA := m
	mmA.Data = append(append([]byte(nil), m.Data...), ' ')
	add("payload:append-space", mmA)
	mmT := m
	mmT.Data = m.Data[:len(m.Data)-1]
	add("payload:truncate", mmT)
	// signature: one bit in every byte, truncations, extension, empty
	for i := range m.Signature {
		mm := m
		mm.Signature = append([]byte(nil), m.Signature...)
		mm.Signature[i] ^= 1 << uint(i%8)
		add(fmt.Sprintf("signature:bit@%d", i), mm)
	}
	for _, l := range []int{0, 1, 32, 63} {
		if l < len(m.Signature) {
			mm := m
			mm.Signature = append([]byte(nil), m.Signature[:l]...)
			add(fmt.Sprintf("signature:truncate%d", l), mm)
		}
	}
	mmE := m
	mmE.Signature = append(append([]byte(nil), m.Signature...), 0)
	add("signature:extended", mmE)
	mmN := m
	mmN.Signature = nil
	add("signature:nil", mmN)
	// sender renamed
	for _, nd := range rec.W.Nodes {
		if nd.Name != m.SenderAddr {
			mm := m
			mm.SenderAddr = nd.Name
			add("sender:"+nd.Name, mm)
		}
	}
	for _, s := range []string{"mallory", "", m.SenderAddr + " "} {
		mm := m
		mm.SenderAddr = s
		add(fmt.Sprintf("sender:%q", s), mm)
	}
	// re-signed with any other key (sender unchanged)
	for _, nd := range rec.W.Nodes {
		if nd.Name != m.SenderAddr {
			mm := m
			mm.Signature = ed25519.Sign(nd.KeyPair.Priv, mm.Bytes())
			add("resigned-by:"+nd.Name, mm)
		}
	}
	mmF := m
	mmF.Signature = ed25519.Sign(freshKey("c09"), mmF.Bytes())
	add("resigned-by:fresh-key", mmF)
	// a stranger signing with its own fresh key under its own name
	mmS := m
	mmS.SenderAddr = "mallory"
	mmS.Signature = ed25519.Sign(freshKey("mallory"), mmS.Bytes())
	add("stranger-signed", mmS)
	return out
}

func c09(tier string, args []string) int {
	r := newRun("C09", tier, "exploration")
	cfgs := []ntPair{{3, 2}}
	views := []int{0, 2}
	if tier == "thorough" {
		cfgs = []ntPair{{2, 2}, {3, 2}, {3, 3}, {4, 3}}
	}
	r.Assume = []string{
		"base states: every prefix of a recorded honest ceremony (key generation + two signing batches) of the real system, each also after an uncompletable reinitialisation message, an unrelated reinitialisation message, a second round's opening proposal and a cancelling error report",
		"the opening proposal and the reinitialisation message are exempt by the statement",
	}
	evals, rejected := 0, 0
	classes := map[string]bool{}
	for _, nt := range cfgs {
		rec := getRecording(r, nt.n, nt.t)
		vs := views
		if tier == "thorough" {
			vs = nil
			for i := 0; i < nt.n; i++ {
				vs = append(vs, i)
			}
		}
		for _, v := range vs {
			if v >= nt.n {
				v = nt.n - 1
			}
			lab, err := NewLabFor(rec.W, v)
			if err != nil {
				r.Infra("lab: %v", err)
			}
			bases := baseStates(r, rec, lab, v)
			// a signing batch cancelled by more than n-t failure reports: the node leaves that
			// state lazily, when it handles the round's next message
			for k := 0; k < len(rec.Snaps[v]); k++ {
				if rec.Snaps[v][k] != nil && rec.Snaps[v][k].RoundState(rec.Round) == string(sif.StateSigningAwaitPartialSigns) {
					var pre []storage.Message
					for p := 0; p <= rec.W.N-rec.W.T; p++ {
						er := requests.SignatureProposalConfirmationErrorRequest{ParticipantId: p, Error: requests.NewFSMError(errors.New("signing failed")), CreatedAt: world.T0}
						pre = append(pre, world.SignedMessage(rec.Round, string(sif.EventSigningPartialSignError), world.MustJSON(er), rec.W.Nodes[p].Name, rec.W.Nodes[p].KeyPair.Priv, ""))
					}
					bases = append(bases, baseState{View: v, K: k, Pre: "signing-cancelled-by-error", Raw: rec.Snaps[v][k], PreMs: pre})
					break
				}
			}
			for _, bs := range bases {
				if r.TimeUp() {
					break
				}
				bs.Snap = bs.Materialize(lab)
				if bs.Phase == "" {
					bs.Phase = bs.Snap.RoundState(rec.Round)
				}
				// genuine messages the node could see next: the next recorded message, and (for
				// replay-style coverage) every earlier recorded message of a different event type
				cands := map[int]bool{}
				if bs.K < len(rec.Log) {
					cands[bs.K] = true
				}
				seenEv := map[string]bool{}
				for j := bs.K - 1; j >= 0 && len(seenEv) < 3; j-- {
					if !seenEv[rec.Log[j].Event] {
						seenEv[rec.Log[j].Event] = true
						cands[j] = true
					}
				}
				for j := range cands {
					g := rec.Log[j]
					if !addressed(rec, v, g) || g.Event == string(spf.EventInitProposal) || g.Event == string(types.ReinitDKG) {
						continue
					}
					muts := authMutants(rec, g)
					// the same message aimed at every other round the node knows of (a second
					// round, a round left behind by a refused proposal), without a valid signature
					for rid := range bs.Snap.Rounds() {
						if rid == rec.Round {
							continue
						}
						m1 := g
						m1.DkgRoundID = rid
						m1.Signature = nil
						muts = append(muts, mutant{"other-round:unsigned", m1})
						m2 := g
						m2.DkgRoundID = rid
						m2.SenderAddr = "mallory"
						m2.Signature = ed25519.Sign(freshKey("mallory"), m2.Bytes())
						muts = append(muts, mutant{"other-round:stranger-signed", m2})
						m3 := g
						m3.DkgRoundID = rid
						m3.Signature = append([]byte(nil), g.Signature...)
						if len(m3.Signature) > 0 {
							m3.Signature[3] ^= 4
						}
						muts = append(muts, mutant{"other-round:bad-signature", m3})
					}
					// the one event name whose messages are not verified, borrowed for an EXISTING round
					// by a stranger: only a proposal that opens a round is exempt
					mi := g
					mi.Event = string(spf.EventInitProposal)
					mi.SenderAddr = "mallory"
					mi.Signature = nil
					muts = append(muts, mutant{"renamed-to-opening-proposal:unsigned-stranger", mi})
					mj := mi
					mj.Data = []byte(`{"junk":true}`)
					muts = append(muts, mutant{"renamed-to-opening-proposal:junk-payload", mj})
					// the message under a signature that IS the sender's - of an earlier message of
					// the same sender, which this very node process has verified before (a running
					// node has verified everything before its position: whatever it remembers of
					// that must not vouch for other bytes). The earlier message is handled first, on
					// the state it was recorded in, so that the process has seen it.
					for jj := j - 1; jj >= 0; jj-- {
						e := rec.Log[jj]
						if jj >= bs.K || e.SenderAddr != g.SenderAddr || len(e.Signature) == 0 || !addressed(rec, v, e) || string(e.Data) == string(g.Data) ||
							e.Event == string(spf.EventInitProposal) || jj >= len(rec.Snaps[v]) {
							continue
						}
						lab.Step(rec.Snaps[v][jj], e)
						ms := g
						ms.Signature = append([]byte(nil), e.Signature...)
						muts = append(muts, mutant{"signature:of-an-earlier-verified-message-of-the-sender", ms})
						break
					}
					for _, mu := range muts {
						err, after, appended := lab.Step(bs.Snap, mu.Msg)
						evals++
						cls := fmt.Sprintf("%s|%s|%s", bs.Phase, g.Event, mutClass(mu.Label))
						classes[cls] = true
						trace := map[string]interface{}{"n": nt.n, "t": nt.t, "base": bs.String(), "genuine_offset": j, "genuine_event": g.Event, "mutation": mu.Label}
						if evals <= 3 {
							r.Sample(trace)
						}
						ch := changedProtected(bs.Snap, after)
						if len(ch) > 0 || len(appended) > 0 {
							r.Violation("C09/unauthentic-message-had-effect/"+bs.Pre+"/"+mutClass(mu.Label), fmt.Sprintf("in %s the message %s (offset %d) with mutation %s changed %v (board appends %d, error: %v)", bs, g.Event, j, mu.Label, ch, len(appended), err), trace)
							continue
						}
						if err == nil {
							r.Violation("C09/unauthentic-message-accepted/"+bs.Pre+"/"+mutClass(mu.Label), fmt.Sprintf("in %s the message %s (offset %d) with mutation %s was accepted (no error)", bs, g.Event, j, mu.Label), trace)
							continue
						}
						if _, isPanic := err.(*PanicError); isPanic {
							continue // crashes are judged by C18
						}
						rejected++
					}
				}
			}
			// a round whose opening proposal registers a malformed communication key for one
			// participant (the proposal is accepted with any key of 10 bytes or more): messages in that
			// participant's name can never carry a valid signature - every one of them is refused
			for _, keyLen := range []int{10, 31, 33, 64} {
				idx := make([]int, rec.W.N)
				for i := range idx {
					idx[i] = i
				}
				req := rec.W.InitProposal(rec.W.T, idx)
				req.CreatedAt = world.T0.Add(time.Duration(77 + keyLen))
				odd := rec.W.N - 1
				if odd == v {
					odd = 0
				}
				req.Participants[odd].PubKey = bytes.Repeat([]byte{7}, keyLen)
				payload := world.MustJSON(req)
				rid := world.RoundID(payload)
				open := world.SignedMessage(rid, string(spf.EventInitProposal), payload, rec.W.Nodes[v].Name, rec.W.Nodes[v].KeyPair.Priv, "")
				_, base, _ := lab.Step(rec.Snaps[v][0], open)
				if base.RoundState(rid) != string(spf.StateAwaitParticipantsConfirmations) {
					continue // this node refuses such a proposal: nothing to forge against
				}
				for _, ev := range []string{string(spf.EventConfirmSignatureProposal), string(spf.EventDeclineProposal)} {
					data := world.MustJSON(requests.SignatureProposalParticipantRequest{ParticipantId: odd, CreatedAt: world.T0})
					variants := map[string]storage.Message{
						"unsigned":               {DkgRoundID: rid, Event: ev, Data: data, SenderAddr: rec.W.Nodes[odd].Name},
						"signed-by-fresh-key":    world.SignedMessage(rid, ev, data, rec.W.Nodes[odd].Name, freshKey("c09-odd"), ""),
						"signed-by-own-real-key": world.SignedMessage(rid, ev, data, rec.W.Nodes[odd].Name, rec.W.Nodes[odd].KeyPair.Priv, ""),
					}
					for _, name := range world.SortedKeys(variants) {
						err, after, appended := lab.Step(base, variants[name])
						evals++
						classes[fmt.Sprintf("malformed-key-%d|%s|%s", keyLen, ev, name)] = true
						trace := map[string]interface{}{"view": v, "registered_key_length": keyLen, "participant": odd, "event": ev, "message": name}
						if ch := changedProtected(base, after); len(ch) > 0 || len(appended) > 0 || err == nil {
							r.Violation("C09/unauthentic-message-had-effect/malformed-registered-key/"+name, fmt.Sprintf("participant %d is registered with a %d-byte key; a %s in its name (%s) was acted on: changed %v, error %v", odd, keyLen, ev, name, ch, err), trace)
						} else {
							rejected++
						}
					}
				}
			}
			lab.Node.Stop()
		}
	}
	r.Set("evaluations", evals)
	r.Set("rejected_without_effect", rejected)
	r.Set("distinct_nontrivial", len(classes))
	r.Set("rule", "every (base state, genuine message, mutation) triple is executed through NodeService.ProcessMessage on the real node; distinct = distinct (round state, event type, mutation class) classes; a mutant byte-identical to the genuine message is skipped")
	return finish(r)
}

func mutClass(label string) string {
	for i, c := range label {
		if c == ':' || c == '@' {
			return label[:i]
		}
	}
	return label
}

var _ = kit.ExitOK
