package checks

import (
	"bytes"
	"encoding/json"
	"fmt"
	"os"
	"os/exec"
	"path/filepath"
	"sort"
	"strings"
	"sync/atomic"

	"github.com/lidofinance/dc4bc/storage"
	"github.com/lidofinance/dc4bc/storage/file_storage"

	"verif/mc/kit"
	"verif/mc/sched"
	"verif/mc/world"
)

func init() { Registry["C16"] = c16 }

var c16seq int64

type c16obs struct {
	Final    []storage.Message // GetMessages(0) from a fresh handle after quiescence
	FinalErr string
	Raw      string
	Sent     []string   // payload tags of every message whose Send returned nil
	Reads    [][]string // what reader threads observed (tags with offsets), in order
	ReadFrom []uint64
	Errors   []string
}

func tagOf(m storage.Message) string { return string(m.Data) }

// c16Scenario describes the threads of one exploration.
type c16Scenario struct {
	Name    string
	Writers [][]string // per writer: payload tags to send (one Send call each)
	Batch   bool       // send a writer's tags in ONE Send call
	Short   []string   // a short-lived writer: open, send these, close
	Reader  []uint64   // reader thread: GetMessages(offset) for each entry
	Ignore  bool       // the reader ignores one id and one offset
	// ReaderOnWriter0: the reader thread uses writer 0's handle (a node polls the board through
	// the same storage object its API handlers post with)
	ReaderOnWriter0 bool
	Bound           int
}

func (sc c16Scenario) build(r *kit.Run) sched.Body {
	return func() ([]string, []func(), func() interface{}) {
		dir := filepath.Join(world.Scratch(), fmt.Sprintf("c16-%d", atomic.AddInt64(&c16seq, 1)))
		_ = os.MkdirAll(dir, 0o755)
		file, lock := filepath.Join(dir, "board.log"), filepath.Join(dir, "board.lock")
		obs := &c16obs{}
		var names []string
		var threads []func()
		open := func() storage.Storage {
			st, err := file_storage.NewFileStorage(file, lock)
			if err != nil {
				r.Infra("NewFileStorage: %v", err)
			}
			return st
		}
		var handle0 storage.Storage
		for wi, tags := range sc.Writers {
			wi, tags := wi, tags
			h := open()
			if wi == 0 {
				handle0 = h
			}
			names = append(names, fmt.Sprintf("writer%d", wi))
			threads = append(threads, func() {
				if sc.Batch {
					var ms []storage.Message
					for _, t := range tags {
						ms = append(ms, storage.Message{Data: []byte(t), Event: "e", SenderAddr: fmt.Sprintf("w%d", wi)})
					}
					if err := h.Send(ms...); err != nil {
						obs.Errors = append(obs.Errors, err.Error())
					} else {
						obs.Sent = append(obs.Sent, tags...)
					}
					return
				}
				for _, t := range tags {
					if err := h.Send(storage.Message{Data: []byte(t), Event: "e", SenderAddr: fmt.Sprintf("w%d", wi)}); err != nil {
						obs.Errors = append(obs.Errors, err.Error())
					} else {
						obs.Sent = append(obs.Sent, t)
					}
				}
			})
		}
		if len(sc.Short) > 0 {
			names = append(names, "short-lived-writer")
			threads = append(threads, func() {
				h := open()
				for _, t := range sc.Short {
					if err := h.Send(storage.Message{Data: []byte(t), Event: "e", SenderAddr: "short"}); err != nil {
						obs.Errors = append(obs.Errors, err.Error())
					} else {
						obs.Sent = append(obs.Sent, t)
					}
				}
				_ = h.Close()
			})
		}
		if len(sc.Reader) > 0 {
			var h storage.Storage
			if sc.ReaderOnWriter0 && handle0 != nil {
				h = handle0
			} else {
				h = open()
			}
			names = append(names, "reader")
			threads = append(threads, func() {
				for _, from := range sc.Reader {
					ms, err := h.GetMessages(from)
					if err != nil {
						obs.Errors = append(obs.Errors, "reader: "+err.Error())
						continue
					}
					var seen []string
					for _, m := range ms {
						seen = append(seen, fmt.Sprintf("%d=%s", m.Offset, tagOf(m)))
					}
					obs.Reads = append(obs.Reads, seen)
					obs.ReadFrom = append(obs.ReadFrom, from)
				}
			})
		}
		observe := func() interface{} {
			h := open()
			ms, err := h.GetMessages(0)
			if err != nil {
				obs.FinalErr = err.Error()
			}
			obs.Final = ms
			raw, _ := os.ReadFile(file)
			obs.Raw = string(raw)
			_ = h.Close()
			os.RemoveAll(dir)
			return obs
		}
		return names, threads, observe
	}
}

// rawOffsetMismatch reads the board file's lines and reports the first whose "offset" member is
// not its position.
func rawOffsetMismatch(raw string) (pos int, off uint64, bad bool) {
	lines := strings.Split(strings.TrimSuffix(raw, "\n"), "\n")
	if raw == "" {
		return 0, 0, false
	}
	for p, l := range lines {
		var m struct {
			Offset uint64 `json:"offset"`
		}
		if err := json.Unmarshal([]byte(l), &m); err != nil {
			continue // torn or foreign lines are judged by the reader's oracle
		}
		if m.Offset != uint64(p) {
			return p, m.Offset, true
		}
	}
	return 0, 0, false
}

// checkLog judges a final log against what was sent and read.
func checkLog(r *kit.Run, scen string, o *c16obs, schedule func() interface{}) {
	viol := func(key, what string) { r.Violation("C16/"+key+"/"+scen, scen+": "+what, schedule()) }
	if o.FinalErr != "" {
		viol("log-unreadable", o.FinalErr)
		return
	}
	if len(o.Errors) > 0 {
		viol("operation-failed", strings.Join(o.Errors, "; "))
	}
	// the offset WRITTEN into each line (what the sender was assigned; the reader may number the
	// lines it returns itself) is its position too
	if p, off, bad := rawOffsetMismatch(o.Raw); bad {
		viol("offset-is-not-position", fmt.Sprintf("the line at position %d of the board file was written with offset %d", p, off))
	}
	count := map[string]int{}
	for p, m := range o.Final {
		if m.Offset != uint64(p) {
			viol("offset-is-not-position", fmt.Sprintf("entry at position %d carries offset %d (log: %s)", p, m.Offset, renderLog(o.Final)))
			break
		}
		count[tagOf(m)]++
	}
	for _, t := range o.Sent {
		if count[t] != 1 {
			viol("message-not-exactly-once", fmt.Sprintf("message %q appears %d times (log: %s)", t, count[t], renderLog(o.Final)))
			break
		}
	}
	if len(o.Final) != len(o.Sent) {
		viol("log-length", fmt.Sprintf("%d messages were sent, the log has %d entries", len(o.Sent), len(o.Final)))
	}
	// every line of the raw file is one JSON message
	lines := strings.Split(strings.TrimSuffix(o.Raw, "\n"), "\n")
	if o.Raw != "" {
		for i, l := range lines {
			var m storage.Message
			if json.Unmarshal([]byte(l), &m) != nil {
				viol("corrupt-line", fmt.Sprintf("line %d of the file is not a message", i))
				break
			}
		}
	}
	// what a reader saw earlier is consistent with the final log (entries never change) and
	// reading from k returns exactly the entries from position k on (of the log as it was)
	for ri, seen := range o.Reads {
		from := o.ReadFrom[ri]
		for i, s := range seen {
			pos := int(from) + i
			if pos >= len(o.Final) || fmt.Sprintf("%d=%s", o.Final[pos].Offset, tagOf(o.Final[pos])) != s {
				viol("read-not-a-stable-suffix", fmt.Sprintf("GetMessages(%d) returned %v, the final log is %s", from, seen, renderLog(o.Final)))
				break
			}
		}
	}
}

func renderLog(ms []storage.Message) string {
	var out []string
	for _, m := range ms {
		t := tagOf(m)
		if len(t) > 12 {
			t = t[:12] + "…"
		}
		out = append(out, fmt.Sprintf("%d=%s", m.Offset, t))
	}
	return "[" + strings.Join(out, " ") + "]"
}

func c16(tier string, args []string) int {
	r := newRun("C16", tier, "exploration")
	r.Assume = []string{
		"writers are goroutines with separate FileStorage handles on one data file and one lock file, and - in the 'processes:' scenarios - separate OS processes (children of the check, one handle each) whose hooked operations are scheduling points of the scheduler in the parent: the exclusion between them is the kernel's flock(2) on the real lock file",
		"scheduling points: flock acquire / release, seek, the first read after a seek (one 'count the lines' or 'scan the file' step), write; a torn read of a line being written is below this granularity",
		"size alphabet around the line counter's 64 KiB token limit and the reader's 1 MiB limit instead of all sizes",
	}
	b := 3
	if tier == "thorough" {
		b = 5
	}
	scenarios := []c16Scenario{
		{Name: "2-writers-1-send", Writers: [][]string{{"a1"}, {"b1"}}, Bound: 99},
		{Name: "2-writers-2-sends", Writers: [][]string{{"a1", "a2"}, {"b1", "b2"}}, Bound: b},
		{Name: "2-writers-batched-send", Writers: [][]string{{"a1", "a2"}, {"b1", "b2"}}, Batch: true, Bound: b},
		{Name: "3-writers-1-send", Writers: [][]string{{"a1"}, {"b1"}, {"c1"}}, Bound: b},
		{Name: "2-writers-and-reader", Writers: [][]string{{"a1"}, {"b1"}}, Reader: []uint64{0, 1, 0}, Bound: b},
		{Name: "reader-on-a-writers-handle", Writers: [][]string{{"a1", "a2"}, {"b1"}}, Reader: []uint64{0, 0}, ReaderOnWriter0: true, Bound: b},
		{Name: "short-lived-writer-next-to-long-lived", Writers: [][]string{{"a1", "a2"}, {"b1"}}, Short: []string{"s1"}, Bound: b},
	}
	// the history search (no scheduler involved) runs in a process of its own next to the schedule
	// explorations: the cooperative scheduler is process-wide
	exe, eerr := os.Executable()
	if eerr != nil {
		r.Infra("os.Executable: %v", eerr)
	}
	histCmd := exec.Command(exe, "c16-histories", tier)
	var histOut bytes.Buffer
	histCmd.Stdout, histCmd.Stderr = &histOut, os.Stderr
	if err := histCmd.Start(); err != nil {
		r.Infra("cannot start the history search: %v", err)
	}
	execs, distinct := 0, 0
	for _, sc := range scenarios {
		if r.TimeUp() {
			break
		}
		sc := sc
		ex := &sched.Explorer{Bound: sc.Bound, Build: sc.build(r), Stop: r.TimeUp, MaxExec: 400000,
			OutcomeKey: func(o interface{}) string { return renderLog(o.(*c16obs).Final) }}
		ex.Check = func(x *sched.Exec) {
			sch := func() interface{} {
				return map[string]interface{}{"scenario": sc.Name, "schedule": x.Schedule(), "choices": x.Choices}
			}
			if x.Deadlock || x.Livelock || x.Aborted != "" {
				r.Violation("C16/deadlock/"+sc.Name, fmt.Sprintf("%s: deadlock=%v livelock=%v %s", sc.Name, x.Deadlock, x.Livelock, x.Aborted), sch())
				return
			}
			checkLog(r, sc.Name, x.Obs.(*c16obs), sch)
		}
		// determinism self-test: the first schedule twice
		a, b2 := ex.RunOne(nil), ex.RunOne(nil)
		if fmt.Sprint(a.Labels) != fmt.Sprint(b2.Labels) {
			r.Infra("scenario %s is not deterministic under the scheduler", sc.Name)
		}
		ex.Explore()
		execs += ex.Executions
		distinct += len(ex.Outcomes)
		if ex.Capped {
			r.Cap("scenario " + sc.Name + " capped")
		}
		keys := make([]string, 0, len(ex.Outcomes))
		for k := range ex.Outcomes {
			keys = append(keys, k)
		}
		sort.Strings(keys)
		if len(keys) > 4 {
			keys = keys[:4]
		}
		r.Sample(map[string]interface{}{"scenario": sc.Name, "preemption_bound": sc.Bound, "schedules": ex.Executions, "distinct_final_logs": len(ex.Outcomes), "some_final_logs": keys})
	}
	// ---- the same with every writer / reader a separate OS process (c16proc.go)
	pexecs, pdistinct := c16Processes(r, tier)
	execs += pexecs
	distinct += pdistinct
	r.Set("schedules_of_os_processes", pexecs)
	// ---- histories of one long-lived handle with ignore lists, against a reference model
	// (c16hist.go); they ran in a process of their own meanwhile
	hist := 0
	{
		err := histCmd.Wait()
		var res c16HistResult
		line := strings.TrimSpace(histOut.String())
		if i := strings.LastIndex(line, "\n"); i >= 0 {
			line = line[i+1:]
		}
		if jerr := json.Unmarshal([]byte(line), &res); jerr != nil {
			r.Infra("the history search (child process) gave no result: %v %v %s", err, jerr, clip(histOut.String(), 300))
		}
		if res.Infra != "" {
			r.Infra("history search: %s", res.Infra)
		}
		for _, v := range res.Violations {
			r.Violation(v.Key, v.What, v.Replay)
		}
		for _, c := range res.Caps {
			r.Cap(c)
		}
		for k, v := range res.Sets {
			r.Set(k, v)
		}
		if n, ok := res.Sets["handle_histories"].(float64); ok {
			hist = int(n)
		}
	}
	// ---- sizes: every sequence of <= 3 messages over the size alphabet, single writer
	seqs := c16Sizes(r, tier)
	r.Set("evaluations", execs+seqs+hist)
	r.Set("schedules_explored", execs)
	r.Set("size_sequences", seqs)
	r.Set("distinct_nontrivial", distinct+seqs)
	r.Set("rule", "pre-emption-bounded exhaustive DFS over the schedules of writer / reader threads on the real FileStorage (bound in each sample; unbounded for 2 writers x 1 send); every sequence of up to 3 messages over a size alphabet with a single writer; oracle on the final log read by a fresh handle: offset = position, every sent message exactly once, earlier reads are stable suffixes; distinct = distinct final logs + size sequences; handle histories: every sequence of appends / reads / ignore / unignore within the budget on a long-lived handle against a list-and-two-sets reference model, all read offsets asked after every history")
	return finish(r)
}

// c16Sizes: offsets stay positions for every sequence of message sizes (reader-accepted sizes).
func c16Sizes(r *kit.Run, tier string) int {
	// line length = len(json of message); find the payload length giving an exact line length
	lineLen := func(n int) int {
		bz, _ := json.Marshal(storage.Message{ID: "00000000-0000-4000-8000-000000000000", Data: make([]byte, n), Event: "e", SenderAddr: "w", Offset: 1})
		return len(bz)
	}
	payloadFor := func(target int) int {
		lo, hi := 0, target
		for lo < hi {
			mid := (lo + hi + 1) / 2
			if lineLen(mid) <= target {
				lo = mid
			} else {
				hi = mid - 1
			}
		}
		return lo
	}
	sizes := []int{0, 1, 100, payloadFor(64*1024 - 2), payloadFor(64 * 1024), payloadFor(64*1024 + 3), payloadFor(200 * 1024), payloadFor(1024*1024 - 16),
		// a line just beyond what the reader accepts: whether Send takes it is left open, but the
		// messages around it are within the statement and must keep their places
		payloadFor(1024*1024 + 64)}
	if tier == "thorough" {
		// the exact boundary of the reader's limit (the offset digits make the line 0-2 bytes longer)
		sizes = append(sizes, payloadFor(1024*1024-3), payloadFor(1024*1024-1), payloadFor(1024*1024))
	}
	maxLen := 3
	n := 0
	var rec func(cur []int)
	rec = func(cur []int) {
		if len(cur) > 0 {
			n++
			dir := filepath.Join(world.Scratch(), fmt.Sprintf("c16s-%d", atomic.AddInt64(&c16seq, 1)))
			_ = os.MkdirAll(dir, 0o755)
			h, err := file_storage.NewFileStorage(filepath.Join(dir, "f"), filepath.Join(dir, "l"))
			if err != nil {
				r.Infra("%v", err)
			}
			var sent []string
			o := &c16obs{}
			for i, si := range cur {
				data := make([]byte, sizes[si])
				tag := fmt.Sprintf("m%d-%d", i, sizes[si])
				copy(data, tag)
				if len(data) < len(tag) {
					data = []byte(tag)[:sizes[si]]
				}
				if err := h.Send(storage.Message{Data: data, Event: "e", SenderAddr: "w"}); err != nil {
					o.Errors = append(o.Errors, err.Error())
					continue // refused: not part of the log
				}
				sent = append(sent, string(data))
			}
			ms, err := h.GetMessages(0)
			if err != nil {
				o.FinalErr = err.Error()
			}
			o.Final = ms
			var szs []int
			for _, si := range cur {
				szs = append(szs, sizes[si])
			}
			trace := func() interface{} { return map[string]interface{}{"payload_sizes": szs} }
			if raw, err := os.ReadFile(filepath.Join(dir, "f")); err == nil {
				if p, off, bad := rawOffsetMismatch(string(raw)); bad {
					r.Violation("C16/offset-is-not-position/sizes", fmt.Sprintf("after messages of payload sizes %v the line at position %d of the board file was written with offset %d", szs, p, off), trace())
				}
			}
			if o.FinalErr != "" {
				r.Violation("C16/log-unreadable/sizes", fmt.Sprintf("after messages of payload sizes %v the log cannot be read: %s", szs, o.FinalErr), trace())
			} else {
				if len(ms) != len(sent) {
					r.Violation("C16/log-length/sizes", fmt.Sprintf("payload sizes %v: %d entries", szs, len(ms)), trace())
				}
				for p, m := range ms {
					if m.Offset != uint64(p) {
						r.Violation("C16/offset-is-not-position/sizes", fmt.Sprintf("after messages of payload sizes %v the entry at position %d carries offset %d", szs, p, m.Offset), trace())
						break
					}
					if p < len(sent) && string(m.Data) != sent[p] {
						r.Violation("C16/entry-changed/sizes", fmt.Sprintf("payload sizes %v: entry %d differs from what was sent", szs, p), trace())
						break
					}
				}
				for k := 1; k < len(ms); k++ {
					part, err := h.GetMessages(uint64(k))
					if err != nil || len(part) != len(ms)-k || (len(part) > 0 && part[0].Offset != uint64(k)) {
						r.Violation("C16/read-from-offset/sizes", fmt.Sprintf("payload sizes %v: GetMessages(%d) returned %d entries (err %v)", szs, k, len(part), err), trace())
						break
					}
				}
			}
			_ = h.Close()
			os.RemoveAll(dir)
		}
		if len(cur) == maxLen || r.TimeUp() {
			return
		}
		for i := range sizes {
			rec(append(append([]int{}, cur...), i))
		}
	}
	rec(nil)
	// one Send call with several messages is all-or-nothing: callers take a failed Send for
	// "nothing was posted" and send everything again
	{
		dir := filepath.Join(world.Scratch(), fmt.Sprintf("c16s-%d", atomic.AddInt64(&c16seq, 1)))
		_ = os.MkdirAll(dir, 0o755)
		h, err := file_storage.NewFileStorage(filepath.Join(dir, "f"), filepath.Join(dir, "l"))
		if err != nil {
			r.Infra("%v", err)
		}
		small := storage.Message{Data: []byte("small"), Event: "e", SenderAddr: "w"}
		big := storage.Message{Data: make([]byte, sizes[len(sizes)-1]), Event: "e", SenderAddr: "w"}
		if tier == "thorough" {
			big.Data = make([]byte, payloadFor(1024*1024+64))
		}
		n++
		if serr := h.Send(small, big, small); serr != nil {
			ms, _ := h.GetMessages(0)
			if len(ms) != 0 {
				r.Violation("C16/failed-send-left-messages", fmt.Sprintf("Send(small, over-limit, small) failed (%v) but left %d message(s) on the board", serr, len(ms)), map[string]interface{}{"sizes": []int{5, len(big.Data), 5}})
			}
		}
		_ = h.Close()
		os.RemoveAll(dir)
	}
	r.Sample(map[string]interface{}{"payload_size_alphabet": sizes, "max_sequence_length": maxLen})
	return n
}
