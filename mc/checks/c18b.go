package checks

import (
	"bytes"
	"encoding/base64"
	"encoding/json"
	"fmt"
	"net/http"
	"net/http/httptest"
	"os"
	"runtime/debug"
	"sort"
	"strings"
	"sync"

	"github.com/corestario/kyber/encrypt/ecies"
	"github.com/corestario/kyber/pairing/bls12381"
	"github.com/labstack/echo/v4"

	"github.com/lidofinance/dc4bc/airgapped"
	cs "github.com/lidofinance/dc4bc/client/api/http_api/context_service"
	"github.com/lidofinance/dc4bc/client/api/http_api/router"
	"github.com/lidofinance/dc4bc/client/types"

	"verif/mc/kit"
	"verif/mc/mut"
	"verif/mc/world"
)

// machineOps returns the request operations machine i processed during the recording, in
// order: the logged key-generation operations followed by the (unlogged) signing operations
// found in the node's recorded stores.
func machineOps(r *kit.Run, rec *world.Recording, i int) []types.Operation {
	raw, err := rec.W.Airs[i].M.VerifDBGet("operations_log")
	if err != nil {
		r.Infra("operation log of machine %d: %v", i, err)
	}
	var lg airgapped.RoundOperationLog
	if err := json.Unmarshal(raw, &lg); err != nil {
		r.Infra("operation log of machine %d: %v", i, err)
	}
	ops := append([]types.Operation(nil), lg[rec.Round]...)
	seen := map[string]bool{}
	for _, o := range ops {
		seen[o.ID] = true
	}
	for _, sn := range rec.PreSnaps[i] {
		pool, _ := sn.RawOps()
		ids := world.SortedKeys(pool)
		for _, id := range ids {
			o := pool[id]
			if !seen[id] && o.IsSigningState() {
				seen[id] = true
				ops = append(ops, *o)
			}
		}
	}
	return ops
}

// freshMachineAt builds a machine with the mnemonic of participant i that processed ops[:k].
func freshMachineAt(rec *world.Recording, i int, ops []types.Operation, k int) (*world.Air, error) {
	a, err := world.NewAirWithMnemonic(rec.W.Airs[i].Label, rec.W.Airs[i].Mnemonic)
	if err != nil {
		return nil, err
	}
	for j := 0; j < k; j++ {
		o := ops[j]
		if _, err := a.Process(&o); err != nil {
			a.Close()
			return nil, fmt.Errorf("replaying operation %d: %w", j, err)
		}
	}
	return a, nil
}

func dbDump(a *world.Air) map[string]string {
	out := map[string]string{}
	for _, k := range a.M.VerifDBKeys() {
		v, _ := a.M.VerifDBGet(k)
		out[k] = string(v)
	}
	return out
}

func c18Airgapped(r *kit.Run, rec *world.Recording, tier string, classes map[string]bool, evals *int) {
	machines := []int{0}
	if tier == "thorough" {
		machines = []int{0, 1, 2}
	}
	type job struct {
		i, k int
		m    mut.Mutant
		opT  string
	}
	var jobs []job
	opsOf := map[int][]types.Operation{}
	for _, i := range machines {
		ops := machineOps(r, rec, i)
		if len(ops) < 5 {
			r.Infra("machine %d: expected 4 key-generation operations and a signing operation, found %d", i, len(ops))
		}
		ops = ops[:5]
		opsOf[i] = ops
		for k, o := range ops {
			bz, _ := json.Marshal(o)
			for _, m := range mut.Mutants(bz, 2) {
				jobs = append(jobs, job{i, k, m, string(o.Type)})
			}
		}
	}
	// mutations INSIDE the encrypted deals addressed to the machine (what a malicious dealer,
	// who can encrypt anything to the victim's key, controls)
	for _, i := range machines {
		o := opsOf[i][2] // the responses step takes the deals as payload
		var entries []map[string]interface{}
		if json.Unmarshal(o.Payload, &entries) != nil {
			r.Infra("deals payload of machine %d does not parse", i)
		}
		base := bls12381.NewBLS12381Suite(nil)
		sec := rec.W.Airs[i].M.VerifSecKey()
		pub := rec.W.Airs[i].M.GetPubKey()
		for ei := range entries {
			ctB64, _ := entries[ei]["DkgDeal"].(string)
			ct, err := base64.StdEncoding.DecodeString(ctB64)
			if err != nil || string(ct) == "self-confirm" {
				continue
			}
			plain, err := ecies.Decrypt(base, sec, ct, base.Hash)
			if err != nil {
				continue
			}
			for _, m := range mut.Mutants(plain, 1) {
				enc, err := ecies.Encrypt(base, pub, m.Doc, base.Hash)
				if err != nil {
					continue
				}
				var cp []map[string]interface{}
				_ = json.Unmarshal(o.Payload, &cp)
				cp[ei]["DkgDeal"] = base64.StdEncoding.EncodeToString(enc)
				o2 := o
				o2.Payload, _ = json.Marshal(cp)
				bz, _ := json.Marshal(o2)
				jobs = append(jobs, job{i, 2, mut.Mutant{Path: ".Payload->b64[].DkgDeal->decrypted" + m.Path, Kind: m.Kind, Doc: bz}, string(o.Type)})
			}
			break // one dealer's deal per machine is enough (they have the same shape)
		}
	}
	var mu sync.Mutex
	var wg sync.WaitGroup
	ch := make(chan job)
	sampled := 0
	for wkr := 0; wkr < 16; wkr++ {
		wg.Add(1)
		go func() {
			defer wg.Done()
			for jb := range ch {
				var op types.Operation
				if err := json.Unmarshal(jb.m.Doc, &op); err != nil {
					mu.Lock()
					*evals++
					classes["airgapped|decode-refused|"+jb.opT] = true
					mu.Unlock()
					continue // refused by the decoder of the operator's tool
				}
				a, err := freshMachineAt(rec, jb.i, opsOf[jb.i], jb.k)
				if err != nil {
					r.Infra("rebuild machine: %v", err)
				}
				before := dbDump(a)
				var perr interface{}
				var rerr error
				site := ""
				kit.Mark(fmt.Sprintf("Machine.ProcessOperation on machine %d after %d operations: %s operation with %s / %s", jb.i, jb.k, jb.opT, jb.m.Path, jb.m.Kind))
				func() {
					defer func() {
						if perr = recover(); perr != nil {
							site = PanicSite(debug.Stack())
						}
					}()
					_, rerr = a.M.ProcessOperation(op, true)
				}()
				label := pathClass(jb.m.Path) + "/" + jb.m.Kind
				trace := map[string]interface{}{"entry": "Machine.ProcessOperation", "machine": jb.i, "operations_processed_before": jb.k, "operation_type": jb.opT, "mutation": label}
				mu.Lock()
				*evals++
				classes["airgapped|"+jb.opT+"|"+label] = true
				if sampled < 2 {
					sampled++
					r.Sample(trace)
				}
				mu.Unlock()
				if perr != nil {
					r.Violation("C18/panic/airgapped/"+site, fmt.Sprintf("Machine.ProcessOperation panicked (in %s) on a %s operation with %s: %v", site, jb.opT, label, perr), trace)
				} else if rerr != nil {
					after := dbDump(a)
					var diff []string
					for k, v := range after {
						if before[k] != v {
							diff = append(diff, k)
						}
					}
					if len(diff) > 0 {
						sort.Strings(diff)
						why := "other"
						if strings.Contains(rerr.Error(), "failed to open file") || strings.Contains(rerr.Error(), "failed to write file") {
							why = "result-file-unwritable"
						}
						r.Violation("C18/rejected-but-changed/airgapped/"+why, fmt.Sprintf("the refused operation (%s, %s: %v) changed the machine's database keys %v", jb.opT, label, rerr, diff), trace)
					}
				}
				// the ceremony goes on: whatever the mutated operation left behind, the genuine
				// operations that follow must not crash the machine either
				// (a refused operation is fed again in its genuine form; after an accepted one the
				// operator goes on with the next operation, on whatever the mutant left stored)
				if perr == nil {
					from := jb.k
					if rerr == nil {
						from = jb.k + 1
					}
					for j := from; j < len(opsOf[jb.i]); j++ {
						var p2 interface{}
						site2 := ""
						func() {
							defer func() {
								if p2 = recover(); p2 != nil {
									site2 = PanicSite(debug.Stack())
								}
							}()
							_, _ = a.M.ProcessOperation(opsOf[jb.i][j], true)
						}()
						if p2 != nil {
							tr := map[string]interface{}{"entry": "Machine.ProcessOperation", "machine": jb.i, "first": fmt.Sprintf("operation %d (%s) with %s", jb.k, jb.opT, label), "then": fmt.Sprintf("genuine operation %d (%s)", j, opsOf[jb.i][j].Type)}
							r.Violation("C18/panic/airgapped-followup/"+site2, fmt.Sprintf("after a %s operation with %s was answered, the genuine operation %d (%s) panicked the machine (in %s): %v", jb.opT, label, j, opsOf[jb.i][j].Type, site2, p2), tr)
							break
						}
					}
				}
				a.Close()
				os.RemoveAll(a.Dir)
			}
		}()
	}
	for _, jb := range jobs {
		if r.TimeUp() {
			break
		}
		ch <- jb
	}
	close(ch)
	wg.Wait()
}

// ---------------------------------------------------------------------------------------------
// (C) request bodies on the local HTTP API (the real echo router, in process)

func c18API(r *kit.Run, rec *world.Recording, tier string, classes map[string]bool, evals *int) {
	w := rec.W
	v := 0
	lab, err := NewLabFor(w, v)
	if err != nil {
		r.Infra("lab: %v", err)
	}
	defer lab.Node.Stop()
	e := echo.New()
	e.HideBanner = true
	e.Use(func(next echo.HandlerFunc) echo.HandlerFunc {
		return func(c echo.Context) error { return next(cs.New(c)) }
	})
	router.SetRouter(e, nil, lab.Node.Svc, lab.Node.SP)

	// genuine bodies: the result of every operation machine v processed, submitted in the state
	// in which that operation is pending
	ops := machineOps(r, rec, v)
	type body struct {
		Path string
		Doc  []byte
		Snap world.Snapshot
		Tag  string
	}
	var bodies []body
	pendingAt := func(id string) world.Snapshot {
		for _, sn := range rec.PreSnaps[v] {
			pool, del := sn.RawOps()
			if _, ok := pool[id]; ok {
				if _, d := del[id]; !d {
					return sn
				}
			}
		}
		return nil
	}
	for k, o := range ops {
		if k >= 5 {
			break
		}
		a, err := freshMachineAt(rec, v, ops, k)
		if err != nil {
			r.Infra("rebuild machine: %v", err)
		}
		oo := o
		res, err := a.Process(&oo)
		a.Close()
		os.RemoveAll(a.Dir)
		if err != nil {
			r.Infra("genuine result: %v", err)
		}
		sn := pendingAt(o.ID)
		if sn == nil {
			continue
		}
		bz, _ := json.Marshal(res)
		bodies = append(bodies, body{"/handleProcessedOperationJSON", bz, sn, string(o.Type)})
	}
	// invitation approval
	for _, sn := range rec.PreSnaps[v] {
		pool, del := sn.RawOps()
		for id, o := range pool {
			if _, d := del[id]; !d && strings.Contains(string(o.Type), "sig_proposal") {
				bodies = append(bodies, body{"/approveDKGParticipation", []byte(fmt.Sprintf(`{"operationID":%q}`, id)), sn, "approve"})
			}
		}
		if len(bodies) > 5 {
			break
		}
	}
	idle := rec.Snaps[v][rec.DKGEnd]
	rid := []byte(rec.Round)
	_ = rid
	dkgID, _ := json.Marshal(mustHexDecode(rec.Round))
	bodies = append(bodies,
		body{"/proposeSignBatchMessages", []byte(fmt.Sprintf(`{"dkgID":%s,"data":{"file one":"aGVsbG8=","f2":"AAEC"}}`, dkgID)), idle, "propose-batch"},
		body{"/proposeSignBakedMessages", []byte(fmt.Sprintf(`{"dkgID":%s,"range_start":3,"range_end":5}`, dkgID)), idle, "propose-baked"},
		body{"/proposeSignMessage", []byte(fmt.Sprintf(`{"dkgID":%s,"data":"aGVsbG8="}`, dkgID)), idle, "propose-one"},
		body{"/saveOffset", []byte(`{"offset":3}`), idle, "save-offset"},
		body{"/sendMessage", mustJSONMsg(rec.Log[1]), idle, "send-message"},
		body{"/startDKG", rec.Log[0].Data, rec.Snaps[v][0], "start-dkg"},
	)
	reinit, _ := types.GenerateReDKGMessage(rec.Log, map[string][]byte{})
	if reinit != nil {
		bz, _ := json.Marshal(reinit)
		bodies = append(bodies, body{"/reinitDKG", bz, rec.Snaps[v][0], "reinit"})
	}
	sampled := 0
	handlerPanics := 0
	for _, b := range bodies {
		for _, m := range mut.Mutants(b.Doc, 1) {
			if r.TimeUp() {
				return
			}
			lab.Node.Mem.Restore(b.Snap)
			lab.Board.SetLog(nil)
			req := httptest.NewRequest(http.MethodPost, b.Path, bytes.NewReader(m.Doc))
			req.Header.Set("Content-Type", "application/json")
			rw := httptest.NewRecorder()
			var perr interface{}
			func() {
				defer func() { perr = recover() }()
				e.ServeHTTP(rw, req)
			}()
			*evals++
			label := pathClass(m.Path) + "/" + m.Kind
			classes["api|"+b.Tag+"|"+label] = true
			trace := map[string]interface{}{"entry": "POST " + b.Path, "body_kind": b.Tag, "mutation": label}
			if sampled < 2 {
				sampled++
				r.Sample(trace)
			}
			after := lab.Node.Mem.Snapshot()
			if perr != nil {
				handlerPanics++
				// recovered per connection by net/http in the product: information only,
				// but the state must still be untouched
			}
			if perr != nil || rw.Code != http.StatusOK {
				ch := changedProtected(b.Snap, after)
				off := b.Snap[world.OffsetKeyS] != after[world.OffsetKeyS]
				if len(ch) > 0 || len(lab.Board.Log()) > 0 || (off && b.Tag != "save-offset") {
					r.Violation("C18/rejected-but-changed/api/"+b.Tag, fmt.Sprintf("POST %s refused the body (%s, status %d, panic %v) but durable state changed: %v, board appends %d", b.Path, label, rw.Code, perr, ch, len(lab.Board.Log())), trace)
				}
			}
		}
	}
	r.Set("http_handler_panics_recovered_by_net_http", handlerPanics)
}

func mustHexDecode(s string) []byte {
	out := make([]byte, len(s)/2)
	for i := range out {
		fmt.Sscanf(s[2*i:2*i+2], "%02x", &out[i])
	}
	return out
}

func mustJSONMsg(v interface{}) []byte { bz, _ := json.Marshal(v); return bz }
