package checks

// C16, separate OS processes. Every writer / reader of a scenario is a CHILD PROCESS of the check
// (this same binary started as `vcheck c16-child`), with its own FileStorage handle, its own file
// descriptors and its own flock(2) owner. The child's scheduling points - the same hooked
// operations as in the goroutine scenarios: flock acquire / release, open, seek, first read after a
// seek, write (in two halves) - are reported over a pipe to the scheduler in the parent, where a
// proxy thread stands for the child. The explorer therefore enumerates the interleavings of
// several PROCESSES within the pre-emption bound, and the exclusion between them is whatever the
// kernel gives the real lock file: anything that excludes only the threads of one process
// (a mutex, a per-process table of locks) does not count here.

import (
	"bufio"
	"encoding/json"
	"fmt"
	"io"
	"os"
	"os/exec"
	"path/filepath"
	"strings"
	"sync/atomic"

	"github.com/lidofinance/dc4bc/storage"
	"github.com/lidofinance/dc4bc/storage/file_storage"
	"github.com/lidofinance/dc4bc/verifshim/vsched"

	"verif/mc/kit"
	"verif/mc/sched"
	"verif/mc/world"
)

// c16Job is what one child does in one execution.
type c16Job struct {
	File, Lock string
	Name       string
	PreOpen    bool     // the handle exists before the threads start (a long-lived process)
	Sends      []string // one Send per tag ...
	Batch      bool     // ... or all tags in one Send
	Reads      []uint64 // GetMessages(offset) for each entry
	CloseAfter bool     // a short-lived process: open, work, close
}

type c16JobResult struct {
	Sent     []string
	Reads    [][]string
	ReadFrom []uint64
	Errors   []string
	Panic    string
}

// C16ChildMain is the child process: it reads jobs on fd 3 and answers on fd 4.
func C16ChildMain() int {
	in := bufio.NewReaderSize(os.NewFile(3, "ctl-in"), 1<<16)
	out := os.NewFile(4, "ctl-out")
	var h storage.Storage
	var job c16Job
	say := func(s string) { _, _ = io.WriteString(out, s+"\n") }
	for {
		line, err := in.ReadString('\n')
		if err != nil {
			return 0
		}
		line = strings.TrimSuffix(line, "\n")
		switch {
		case strings.HasPrefix(line, "PREP "):
			if h != nil {
				_ = h.Close()
				h = nil
			}
			job = c16Job{}
			if err := json.Unmarshal([]byte(line[5:]), &job); err != nil {
				say("E bad job: " + err.Error())
				continue
			}
			if job.PreOpen {
				st, err := file_storage.NewFileStorage(job.File, job.Lock)
				if err != nil {
					say("E open: " + err.Error())
					continue
				}
				h = st
			}
			say("K")
		case line == "GO":
			res := c16JobResult{}
			func() {
				vsched.AttachRemote(in, out)
				defer vsched.DetachRemote()
				defer func() {
					if r := recover(); r != nil {
						if vsched.IsAbort(r) {
							res.Panic = "aborted"
							return
						}
						res.Panic = fmt.Sprint(r)
					}
				}()
				if h == nil {
					st, err := file_storage.NewFileStorage(job.File, job.Lock)
					if err != nil {
						res.Errors = append(res.Errors, "open: "+err.Error())
						return
					}
					h = st
				}
				mk := func(t string) storage.Message {
					return storage.Message{Data: []byte(t), Event: "e", SenderAddr: job.Name}
				}
				if job.Batch && len(job.Sends) > 0 {
					var ms []storage.Message
					for _, t := range job.Sends {
						ms = append(ms, mk(t))
					}
					if err := h.Send(ms...); err != nil {
						res.Errors = append(res.Errors, err.Error())
					} else {
						res.Sent = append(res.Sent, job.Sends...)
					}
				} else {
					for _, t := range job.Sends {
						if err := h.Send(mk(t)); err != nil {
							res.Errors = append(res.Errors, err.Error())
						} else {
							res.Sent = append(res.Sent, t)
						}
					}
				}
				for _, from := range job.Reads {
					ms, err := h.GetMessages(from)
					if err != nil {
						res.Errors = append(res.Errors, "reader: "+err.Error())
						continue
					}
					seen := []string{}
					for _, m := range ms {
						seen = append(seen, fmt.Sprintf("%d=%s", m.Offset, tagOf(m)))
					}
					res.Reads = append(res.Reads, seen)
					res.ReadFrom = append(res.ReadFrom, from)
				}
				if job.CloseAfter {
					_ = h.Close()
					h = nil
				}
			}()
			bz, _ := json.Marshal(res)
			say("R " + string(bz))
		case line == "QUIT":
			return 0
		}
	}
}

type c16Child struct {
	cmd *exec.Cmd
	to  *os.File
	rd  *bufio.Reader
	pid int
}

func startC16Child(r *kit.Run) *c16Child {
	pr1, pw1, err := os.Pipe() // parent -> child
	if err != nil {
		r.Infra("pipe: %v", err)
	}
	pr2, pw2, err := os.Pipe() // child -> parent
	if err != nil {
		r.Infra("pipe: %v", err)
	}
	exe, err := os.Executable()
	if err != nil {
		r.Infra("os.Executable: %v", err)
	}
	cmd := exec.Command(exe, "c16-child")
	cmd.ExtraFiles = []*os.File{pr1, pw2}
	cmd.Stdout, cmd.Stderr = nil, os.Stderr
	if err := cmd.Start(); err != nil {
		r.Infra("cannot start the child process: %v", err)
	}
	pr1.Close()
	pw2.Close()
	return &c16Child{cmd: cmd, to: pw1, rd: bufio.NewReaderSize(pr2, 1<<16), pid: cmd.Process.Pid}
}

func (c *c16Child) say(s string) error { _, err := io.WriteString(c.to, s+"\n"); return err }
func (c *c16Child) hear() (string, error) {
	l, err := c.rd.ReadString('\n')
	return strings.TrimSuffix(l, "\n"), err
}
func (c *c16Child) stop() {
	_ = c.say("QUIT")
	c.to.Close()
	_ = c.cmd.Process.Kill()
	_, _ = c.cmd.Process.Wait()
}

// c16ProcScenario: the threads of a scenario, each one an OS process.
type c16ProcScenario struct {
	Name  string
	Jobs  []c16Job
	Bound int
}

// c16ProcPool keeps the child processes of a scenario alive over its executions; a child that was
// left in the middle of an operation (aborted execution) is replaced.
type c16ProcPool struct {
	r        *kit.Run
	children []*c16Child
	started  int
}

func (p *c16ProcPool) get(i int) *c16Child {
	for len(p.children) <= i {
		p.children = append(p.children, nil)
	}
	if p.children[i] == nil {
		p.children[i] = startC16Child(p.r)
		p.started++
	}
	return p.children[i]
}
func (p *c16ProcPool) drop(i int) {
	if p.children[i] != nil {
		p.children[i].stop()
		p.children[i] = nil
	}
}
func (p *c16ProcPool) stopAll() {
	for i := range p.children {
		p.drop(i)
	}
}

func (sc c16ProcScenario) build(r *kit.Run, pool *c16ProcPool) sched.Body {
	return func() ([]string, []func(), func() interface{}) {
		dir := filepath.Join(world.Scratch(), fmt.Sprintf("c16p-%d", atomic.AddInt64(&c16seq, 1)))
		_ = os.MkdirAll(dir, 0o755)
		file, lock := filepath.Join(dir, "board.log"), filepath.Join(dir, "board.lock")
		obs := &c16obs{}
		results := make([]c16JobResult, len(sc.Jobs))
		var names []string
		var threads []func()
		for i, job := range sc.Jobs {
			i, job := i, job
			job.File, job.Lock = file, lock
			ch := pool.get(i)
			bz, _ := json.Marshal(job)
			if err := ch.say("PREP " + string(bz)); err != nil {
				r.Infra("child %d: %v", i, err)
			}
			if ans, err := ch.hear(); err != nil || ans != "K" {
				r.Infra("child %d did not take its job: %q %v", i, ans, err)
			}
			names = append(names, job.Name)
			threads = append(threads, func() {
				s := vsched.Active()
				finished := false
				defer func() {
					if !finished {
						// unwinding (the execution was aborted): the child is in the middle of
						// something; replace it
						pool.drop(i)
					}
				}()
				if err := ch.say("GO"); err != nil {
					r.Infra("child %d: %v", i, err)
				}
				for {
					line, err := ch.hear()
					if err != nil {
						r.Infra("child %d (%s) went away: %v", i, job.Name, err)
					}
					switch {
					case strings.HasPrefix(line, "Y "):
						vsched.Yield(line[2:])
						_ = ch.say("G")
					case strings.HasPrefix(line, "B "):
						parts := strings.SplitN(line[2:], "\t", 2)
						label := ""
						if len(parts) > 1 {
							label = strings.TrimPrefix(parts[1], "block:")
						}
						s.Block(parts[0], label)
						_ = ch.say("G")
					case strings.HasPrefix(line, "U "):
						s.Unblock(line[2:])
					case strings.HasPrefix(line, "R "):
						if err := json.Unmarshal([]byte(line[2:]), &results[i]); err != nil {
							r.Infra("child %d: bad result %q", i, line)
						}
						finished = true
						return
					default:
						r.Infra("child %d: unexpected line %q", i, line)
					}
				}
			})
		}
		observe := func() interface{} {
			for i, res := range results {
				obs.Sent = append(obs.Sent, res.Sent...)
				obs.Reads = append(obs.Reads, res.Reads...)
				obs.ReadFrom = append(obs.ReadFrom, res.ReadFrom...)
				obs.Errors = append(obs.Errors, res.Errors...)
				if res.Panic != "" {
					obs.Errors = append(obs.Errors, fmt.Sprintf("process %s: panic: %s", sc.Jobs[i].Name, res.Panic))
				}
			}
			h, err := file_storage.NewFileStorage(file, lock)
			if err != nil {
				r.Infra("NewFileStorage: %v", err)
			}
			ms, err := h.GetMessages(0)
			if err != nil {
				obs.FinalErr = err.Error()
			}
			obs.Final = ms
			raw, _ := os.ReadFile(file)
			obs.Raw = string(raw)
			_ = h.Close()
			os.RemoveAll(dir)
			return obs
		}
		return names, threads, observe
	}
}

// c16Processes explores the process scenarios; returns schedules and distinct final logs.
func c16Processes(r *kit.Run, tier string) (int, int) {
	b := 2
	if tier == "thorough" {
		b = 4
	}
	readerOffsets := []uint64{0, 0}
	if tier == "thorough" {
		readerOffsets = []uint64{0, 1, 0}
	}
	w := func(name string, tags ...string) c16Job { return c16Job{Name: name, PreOpen: true, Sends: tags} }
	scenarios := []c16ProcScenario{
		{Name: "processes:2-writers-1-send", Bound: 99, Jobs: []c16Job{w("p-a", "a1"), w("p-b", "b1")}},
		{Name: "processes:2-writers-2-sends", Bound: b, Jobs: []c16Job{w("p-a", "a1", "a2"), w("p-b", "b1", "b2")}},
		{Name: "processes:3-writers-1-send", Bound: b, Jobs: []c16Job{w("p-a", "a1"), w("p-b", "b1"), w("p-c", "c1")}},
		{Name: "processes:2-writers-and-a-reader", Bound: b, Jobs: []c16Job{w("p-a", "a1"), w("p-b", "b1"), {Name: "p-r", PreOpen: true, Reads: readerOffsets}}},
		{Name: "processes:writer-that-starts-and-ends-next-to-a-running-one", Bound: b, Jobs: []c16Job{w("p-a", "a1", "a2"), {Name: "p-s", Sends: []string{"s1"}, CloseAfter: true}}},
		{Name: "processes:batched-send-next-to-single-sends", Bound: b, Jobs: []c16Job{{Name: "p-a", PreOpen: true, Sends: []string{"a1", "a2"}, Batch: true}, w("p-b", "b1", "b2")}},
	}
	execs, distinct := 0, 0
	var stats []map[string]interface{}
	defer func() { r.Set("process_scenarios", stats) }()
	for _, sc := range scenarios {
		if r.TimeUp() {
			break
		}
		sc := sc
		pool := &c16ProcPool{r: r}
		ex := &sched.Explorer{Bound: sc.Bound, Build: sc.build(r, pool), Stop: r.TimeUp, MaxExec: 200000,
			OutcomeKey: func(o interface{}) string { return renderLog(o.(*c16obs).Final) }}
		ex.Check = func(x *sched.Exec) {
			sch := func() interface{} {
				return map[string]interface{}{"scenario": sc.Name, "schedule": x.Schedule(), "choices": x.Choices}
			}
			if x.Deadlock || x.Livelock || x.Aborted != "" {
				r.Violation("C16/deadlock/"+sc.Name, fmt.Sprintf("%s: deadlock=%v livelock=%v %s", sc.Name, x.Deadlock, x.Livelock, x.Aborted), sch())
				return
			}
			checkLog(r, sc.Name, x.Obs.(*c16obs), sch)
		}
		a, b2 := ex.RunOne(nil), ex.RunOne(nil)
		if fmt.Sprint(a.Labels) != fmt.Sprint(b2.Labels) {
			pool.stopAll()
			r.Infra("scenario %s is not deterministic under the scheduler", sc.Name)
		}
		ex.Explore()
		pool.stopAll()
		execs += ex.Executions
		distinct += len(ex.Outcomes)
		if ex.Capped {
			r.Cap("scenario " + sc.Name + " capped")
		}
		stats = append(stats, map[string]interface{}{"scenario": sc.Name, "preemption_bound": sc.Bound, "schedules": ex.Executions, "distinct_final_logs": len(ex.Outcomes)})
		r.Sample(map[string]interface{}{"scenario": sc.Name, "threads_are": "OS processes", "preemption_bound": sc.Bound, "schedules": ex.Executions, "distinct_final_logs": len(ex.Outcomes), "child_processes_started": pool.started})
	}
	return execs, distinct
}
