package checks

import (
	"fmt"
	"io"
	"os"
	"os/exec"
	"strconv"
	"strings"
	"sync"
	"sync/atomic"

	"github.com/lidofinance/dc4bc/fsm/types/requests"
	"github.com/lidofinance/dc4bc/pkg/wc_rotation"

	"verif/mc/oracle"
)

func init() { Registry["C17"] = c17 }

func c17(tier string, args []string) int {
	r := newRun("C17", tier, "exploration")
	r.Assume = []string{
		"the reference is an independent implementation of hash_tree_root / compute_domain / compute_signing_root written from the consensus spec (mc/oracle/ssz.go), sharing no code with the fastssz-generated encoders",
		"spec constants (domain type, genesis fork version, genesis validators root, Lido withdrawal key and execution address) are written out independently in the oracle",
		"uint64 validator indices beyond the baked list are covered by a boundary alphabet, not exhaustively",
	}
	list := strings.Split(wc_rotation.ValidatorsIndexes, "\n")
	// the list must be 18632 entries plus a trailing empty line
	positions := 18632
	if len(list) < positions {
		r.Violation("C17/list-too-short", fmt.Sprintf("baked list has %d lines", len(list)), nil)
		positions = len(list)
	}
	evals, distinct := 0, 0
	seen := map[string]int{}
	call := func(pos int) (m requests.MessageToSign, err error, pv interface{}) {
		defer func() { pv = recover() }()
		m, err = requests.ReconstructBakedMessage(pos)
		return
	}
	// first in DESCENDING order (a fresh process): an answer must not depend on which positions
	// were asked before
	// boundary alphabet of validator indices through GetSigningRoot - asked as the very first
	// thing this process asks of the package (whatever the package remembers between calls is
	// empty then), and again after the whole list went through it
	idxs := C17BoundaryIndices()
	boundary := func(when string) {
		for round := 0; round < 2; round++ { // each index twice: a second answer may come from a memory
			for _, i := range idxs {
				got, err := wc_rotation.GetSigningRoot(i)
				evals++
				want := oracle.SpecSigningRoot(i)
				if err != nil || got != want {
					r.Violation("C17/wrong-signing-root-boundary", fmt.Sprintf("validator index %d (asked %s, pass %d): GetSigningRoot = %x (err %v), spec %x", i, when, round+1, got, err, want), map[string]interface{}{"index": i, "when": when})
				}
			}
		}
		distinct += len(idxs)
	}
	// ... in processes of their own, in both orders of the alphabet
	for _, order := range []string{"ascending", "descending"} {
		exe, err := os.Executable()
		if err != nil {
			r.Infra("os.Executable: %v", err)
		}
		out, err := exec.Command(exe, "c17-boundary", order).Output()
		if err != nil {
			r.Violation("C17/boundary-process-fails", fmt.Sprintf("a fresh process asking the boundary indices (%s) ended with %v: %s", order, err, clip(string(out), 300)), map[string]string{"order": order})
			continue
		}
		for _, l := range strings.Split(string(out), "\n") {
			if strings.HasPrefix(l, "BAD ") {
				r.Violation("C17/wrong-signing-root-boundary", "in a fresh process ("+order+" order of the alphabet): "+l[4:], map[string]string{"order": order, "what": l[4:]})
			}
			if strings.HasPrefix(l, "ASKED ") {
				n, _ := strconv.Atoi(l[6:])
				evals += n
			}
		}
	}
	for pos := positions - 1; pos >= 0; pos -= 1 {
		m, err, pv := call(pos)
		evals++
		if pv != nil || err != nil {
			continue // judged in the ascending pass below
		}
		idx, perr := strconv.ParseUint(m.MessageID, 10, 64)
		if perr != nil {
			continue
		}
		want := oracle.SpecSigningRoot(idx)
		if string(m.Payload) != string(want[:]) {
			r.Violation("C17/wrong-signing-root/order-dependent", fmt.Sprintf("position %d asked after the higher positions (validator %d): message %x, consensus-spec signing root %x", pos, idx, m.Payload, want), map[string]interface{}{"position": pos, "order": "descending"})
			break
		}
	}
	for pos := 0; pos < positions; pos++ {
		m, err, pv := call(pos)
		evals++
		if pv != nil {
			r.Violation("C17/panic-in-range", fmt.Sprintf("position %d panics: %v", pos, pv), map[string]int{"position": pos})
			continue
		}
		if err != nil {
			r.Violation("C17/position-refused", fmt.Sprintf("position %d of the list is refused: %v", pos, err), map[string]int{"position": pos})
			continue
		}
		// well-formed index: decimal digits only, no sign/space/leading zero, fits uint64
		id := m.MessageID
		idx, perr := strconv.ParseUint(id, 10, 64)
		if perr != nil || strconv.FormatUint(idx, 10) != id {
			r.Violation("C17/malformed-index", fmt.Sprintf("position %d yields the identifier %q, not a canonical decimal validator index", pos, id), map[string]int{"position": pos})
			continue
		}
		if prev, dup := seen[id]; dup {
			r.Violation("C17/duplicate-index", fmt.Sprintf("validator index %s appears at positions %d and %d", id, prev, pos), map[string]int{"position": pos})
		}
		seen[id] = pos
		want := oracle.SpecSigningRoot(idx)
		if string(m.Payload) != string(want[:]) {
			r.Violation("C17/wrong-signing-root", fmt.Sprintf("position %d (validator %d): message %x, consensus-spec signing root %x", pos, idx, m.Payload, want), map[string]int{"position": pos})
		}
		if !m.BakedDataPayload || m.File != fmt.Sprintf("bakedrange%d", pos) {
			r.Violation("C17/wrong-metadata", fmt.Sprintf("position %d: File=%q BakedDataPayload=%v", pos, m.File, m.BakedDataPayload), map[string]int{"position": pos})
		}
		distinct++
		if pos < 2 {
			r.Sample(map[string]interface{}{"position": pos, "validator_index": idx, "signing_root": fmt.Sprintf("%x", m.Payload)})
		}
	}
	boundary("after-the-list")
	r.Sample(map[string]interface{}{"boundary_indices": len(idxs)})
	// out-of-range positions
	for _, pos := range []int{-1, -2, -18632, -1 << 31, -1 << 62, positions, positions + 1, positions + 2, 1 << 20, 1<<31 - 1, 1 << 40} {
		m, err, pv := call(pos)
		evals++
		distinct++
		if pv != nil {
			r.Violation("C17/panic-out-of-range", fmt.Sprintf("position %d panics instead of returning an error: %v", pos, pv), map[string]int{"position": pos})
		} else if err == nil {
			r.Violation("C17/out-of-range-accepted", fmt.Sprintf("position %d outside the list yields a message (id %q)", pos, m.MessageID), map[string]int{"position": pos})
		}
	}
	// the same positions through the expansion used by signer, store and reconstruction
	for _, rg := range [][2]int{{-1, 1}, {positions - 1, positions + 1}, {positions, positions + 1}, {0, 0}, {5, 3}} {
		func() {
			defer func() {
				if pv := recover(); pv != nil {
					r.Violation("C17/panic-in-expansion", fmt.Sprintf("TasksToMessages panics on range %v: %v", rg, pv), rg)
				}
			}()
			ms, err := requests.TasksToMessages([]requests.SigningTask{{MessageID: "x", RangeStart: rg[0], RangeEnd: rg[1]}})
			evals++
			distinct++
			if (rg[0] < 0 || rg[1] > positions) && rg[0] < rg[1] && err == nil {
				r.Violation("C17/out-of-range-expanded", fmt.Sprintf("range %v expands to %d messages without an error", rg, len(ms)), rg)
			}
			if rg[0] >= rg[1] && (err != nil || len(ms) != 0) {
				r.Violation("C17/empty-range-not-empty", fmt.Sprintf("empty range %v expands to %d messages (err %v)", rg, len(ms), err), rg)
			}
		}()
	}
	// supplement (free-running, NOT an enumeration of schedules: silence says nothing, a wrong root
	// is a wrong root): the node computes these roots from its poller and from its API handlers at
	// the same time - eight goroutines go through the whole list at once
	{
		var wg sync.WaitGroup
		var bad atomic.Value
		var n int64
		for g := 0; g < 8; g++ {
			wg.Add(1)
			go func(g int) {
				defer wg.Done()
				for k := 0; k < positions; k++ {
					pos := (k*7 + g*2333) % positions
					m, err, pv := call(pos)
					atomic.AddInt64(&n, 1)
					if pv != nil || err != nil {
						bad.CompareAndSwap(nil, fmt.Sprintf("position %d, asked while other goroutines ask for other positions: error %v panic %v", pos, err, pv))
						return
					}
					idx, perr := strconv.ParseUint(m.MessageID, 10, 64)
					if perr != nil {
						continue
					}
					want := oracle.SpecSigningRoot(idx)
					if string(m.Payload) != string(want[:]) {
						bad.CompareAndSwap(nil, fmt.Sprintf("position %d (validator %d), asked while other goroutines ask for other positions: message %x, consensus-spec signing root %x", pos, idx, m.Payload, want))
						return
					}
				}
			}(g)
		}
		wg.Wait()
		evals += int(n)
		if b := bad.Load(); b != nil {
			r.Violation("C17/wrong-signing-root/concurrent-callers", b.(string), map[string]string{"how": "8 goroutines through the whole list at once (free-running)"})
		}
		r.Set("concurrent_supplement_calls", int(n))
	}
	r.Set("evaluations", evals)
	r.Set("distinct_nontrivial", distinct)
	r.Set("positions_checked", positions)
	r.Set("rule", "all 18632 baked positions through requests.ReconstructBakedMessage against the independent spec implementation (one canonical decimal index each, no duplicates), a boundary alphabet of uint64 indices through wc_rotation.GetSigningRoot, out-of-range positions (negative, trailing empty line, beyond) directly and through TasksToMessages; free-running supplement: 8 goroutines through the whole list at once")
	return finish(r)
}

// C17BoundaryIndices is the alphabet of validator indices asked of GetSigningRoot directly.
func C17BoundaryIndices() []uint64 {
	var idxs []uint64
	idxs = append(idxs, 0, 1, ^uint64(0), ^uint64(0)-1)
	for k := 8; k <= 56; k += 8 {
		p := uint64(1) << uint(k)
		idxs = append(idxs, p-1, p, p+1)
	}
	for b := 0; b < 8; b++ {
		for _, v := range []uint64{1, 0x7f, 0x80, 0xff} {
			idxs = append(idxs, v<<uint(8*b))
		}
	}
	return idxs
}

// C17BoundaryChild is a process of its own that asks the boundary indices first thing (each
// twice) and prints what differs from the spec.
func C17BoundaryChild(order string, out io.Writer) int {
	idxs := C17BoundaryIndices()
	if order == "descending" {
		for i, j := 0, len(idxs)-1; i < j; i, j = i+1, j-1 {
			idxs[i], idxs[j] = idxs[j], idxs[i]
		}
	}
	n := 0
	for round := 0; round < 2; round++ {
		for _, i := range idxs {
			got, err := wc_rotation.GetSigningRoot(i)
			n++
			want := oracle.SpecSigningRoot(i)
			if err != nil || got != want {
				fmt.Fprintf(out, "BAD validator index %d (pass %d): GetSigningRoot = %x (err %v), spec %x\n", i, round+1, got, err, want)
			}
		}
	}
	fmt.Fprintf(out, "ASKED %d\n", n)
	return 0
}
