package checks

import (
	"encoding/json"

	"fmt"
	"github.com/lidofinance/dc4bc/client/api/dto"
	"github.com/lidofinance/dc4bc/client/types"
	"github.com/lidofinance/dc4bc/fsm/fsm"
	spf "github.com/lidofinance/dc4bc/fsm/state_machines/signature_proposal_fsm"
	"os"
	"sort"
	"strings"
	"sync"

	"github.com/lidofinance/dc4bc/client/modules/state"
	sif "github.com/lidofinance/dc4bc/fsm/state_machines/signing_proposal_fsm"

	"verif/mc/kit"
	"verif/mc/oracle"
	"verif/mc/world"
)

func init() { Registry["C13"] = c13 }

// crashRun is one complete ceremony (key generation + one signing batch) in which node V runs
// over the REAL LevelDBState and may be killed at a chosen durable effect.
type crashRun struct {
	n, t, v int
	w       *world.World
	dbPath  string
	ls      *state.LevelDBState
	// crash plan: kill at the k-th durable effect of node v (1-based), before or after it
	crashAt    []int
	crashPhase []string
	nextPlan   int
	effects    int
	step       string // what node v is doing ("poll:<event>", "api:<operation type>")
	log        []string
	crashes    []string
	mu         sync.Mutex
	restarts   int
	results    map[string]*types.Operation // result files the operators already hold, by operation id
}

// operate answers a pending operation. The airgapped machine processes every operation once;
// if the node lost the submission (crash), the operator submits the SAME result file again.
func (c *crashRun) operate(i int, op *types.Operation) error {
	w := c.w
	if fsm.State(op.Type) == spf.StateAwaitParticipantsConfirmations {
		return w.Nodes[i].Svc.ApproveParticipation(&dto.OperationIdDTO{OperationID: op.ID})
	}
	key := fmt.Sprintf("%d|%s", i, op.ID)
	c.mu.Lock()
	res := c.results[key]
	c.mu.Unlock()
	if res == nil {
		var err error
		res, err = w.Airs[i].Process(op)
		if err != nil {
			return fmt.Errorf("airgapped: %w", err)
		}
		c.mu.Lock()
		c.results[key] = res
		c.mu.Unlock()
	}
	bz, _ := json.Marshal(res)
	var cp types.Operation
	_ = json.Unmarshal(bz, &cp)
	return w.Nodes[i].SubmitResult(&cp)
}

func (c *crashRun) effect(kind, phase string) {
	c.mu.Lock()
	if phase == "pre" {
		c.effects++
		c.log = append(c.log, fmt.Sprintf("%d:%s@%s", c.effects, kind, c.step))
	}
	e := c.effects
	hit := c.nextPlan < len(c.crashAt) && c.crashAt[c.nextPlan] == e && c.crashPhase[c.nextPlan] == phase
	if hit {
		c.nextPlan++
		c.crashes = append(c.crashes, fmt.Sprintf("%s effect %d (%s) during %s", map[string]string{"pre": "before", "post": "after"}[phase], e, kind, c.step))
	}
	c.mu.Unlock()
	if hit {
		panic(world.CrashSentinel{Point: fmt.Sprintf("%s:%d:%s", phase, e, kind)})
	}
}

func keyClass(key []byte) string {
	k := string(key)
	switch {
	case strings.HasSuffix(k, "_offset"):
		return "offset"
	case strings.HasSuffix(k, "_fsm_state"):
		return "rounds"
	case strings.HasSuffix(k, "_deleted_operations"):
		return "tombstones"
	case strings.HasSuffix(k, "_operations"):
		return "operations"
	case strings.HasPrefix(k, "signatures_"):
		return "signatures"
	}
	return "other"
}

func newCrashRun(r *kit.Run, n, t, v int) *crashRun {
	c := &crashRun{n: n, t: t, v: v, results: map[string]*types.Operation{}}
	w := &world.World{N: n, Board: world.NewBoard()}
	for i := 0; i < n; i++ {
		name := world.NodeName(i)
		a, err := world.NewAir(name)
		if err != nil {
			r.Infra("air: %v", err)
		}
		w.Airs = append(w.Airs, a)
		w.Names = append(w.Names, name)
		if i != v {
			nd, err := world.NewMemNode(name, w.Board)
			if err != nil {
				r.Infra("node: %v", err)
			}
			w.Nodes = append(w.Nodes, nd)
			continue
		}
		w.Nodes = append(w.Nodes, nil)
	}
	c.w = w
	c.dbPath = world.NewDir("nodestate") + "/db"
	world.RegisterDBHook(c.dbPath, func(op, phase string, key []byte) {
		if op == "open" {
			return
		}
		c.effect(op+":"+keyClass(key), phase)
	})
	c.startNode(r)
	return c
}

// startNode (re)creates node v's process over its state directory.
func (c *crashRun) startNode(r *kit.Run) {
	// while the process starts, its own initialisation writes are not crash points of the plan
	c.mu.Lock()
	saved := c.step
	c.step = "startup"
	c.mu.Unlock()
	ls, err := state.NewLevelDBState(c.dbPath, world.Topic)
	if err != nil {
		r.Infra("open state: %v", err)
	}
	c.ls = ls
	h := c.w.Board.NewHandle()
	h.Hook = func(op, phase string) {
		if op == "send" {
			c.effect("send", phase)
		}
	}
	name := world.NodeName(c.v)
	nd, err := world.NewNodeOver(name, world.DetKeyPair(name), ls, h)
	if err != nil {
		r.Infra("node: %v", err)
	}
	c.w.Nodes[c.v] = nd
	c.mu.Lock()
	c.step = saved
	c.mu.Unlock()
}

// restart simulates the death of the process and a new start on the same state directory.
func (c *crashRun) restart(r *kit.Run) {
	old := c.w.Nodes[c.v]
	old.Stop()
	_ = c.ls.VerifClose()
	c.restarts++
	c.startNode(r)
}

func (c *crashRun) close() {
	world.UnregisterDBHook(c.dbPath)
	for _, n := range c.w.Nodes {
		if n != nil {
			n.Stop()
		}
	}
	_ = c.ls.VerifClose()
	for _, a := range c.w.Airs {
		a.Close()
		os.RemoveAll(a.Dir)
	}
	os.RemoveAll(strings.TrimSuffix(c.dbPath, "/db"))
}

// guarded runs f (an action of node v) and reports whether the injected crash fired in it.
func (c *crashRun) guarded(f func() error) (crashed bool, err error) {
	defer func() {
		if rec := recover(); rec != nil {
			if _, ok := rec.(world.CrashSentinel); ok {
				crashed = true
				return
			}
			panic(rec)
		}
	}()
	err = f()
	if err != nil && c.w.Nodes[c.v].Crashed != nil {
		return true, nil
	}
	return false, err
}

// drive runs the canonical schedule to quiescence, restarting node v whenever it was killed
// and (optionally) cleanly after every one of its steps.
func (c *crashRun) drive(r *kit.Run, restartAfterEveryStep bool, pendingCheck func(where string)) error {
	w := c.w
	for iter := 0; iter < 400; iter++ {
		progressed := false
		for i := 0; i < c.n; i++ {
			for int(w.Nodes[i].Offset()) < w.Board.Len() {
				nd := w.Nodes[i]
				off := int(nd.Offset())
				if i == c.v {
					c.mu.Lock()
					c.step = "poll:" + w.Board.Log()[off].Event
					c.mu.Unlock()
					crashed, err := c.guarded(func() error { return nd.Tick(off + 1) })
					if err != nil {
						return err
					}
					if crashed {
						c.restart(r)
						if pendingCheck != nil {
							pendingCheck("after crash in " + c.step)
						}
					} else if restartAfterEveryStep {
						c.restart(r)
					}
					if int(w.Nodes[i].Offset()) == off && !crashed {
						return fmt.Errorf("node %d made no progress at offset %d", i, off)
					}
				} else if err := nd.Tick(off + 1); err != nil {
					return err
				}
				progressed = true
			}
		}
		for i := 0; i < c.n; i++ {
			for _, op := range w.Nodes[i].PendingOps() {
				if i == c.v {
					c.mu.Lock()
					c.step = "api:" + string(op.Type)
					c.mu.Unlock()
					op := op
					crashed, err := c.guarded(func() error { return c.operate(i, op) })
					if crashed {
						c.restart(r)
						if pendingCheck != nil {
							pendingCheck("after crash in " + c.step)
						}
					} else if err != nil {
						// after a crash the operator may answer an operation a second time
						if !strings.Contains(err.Error(), "already") {
							return fmt.Errorf("node %d op %s: %w", i, op.Type, err)
						}
					} else if restartAfterEveryStep {
						c.restart(r)
					}
				} else if err := c.operate(i, op); err != nil {
					return fmt.Errorf("node %d op %s: %w", i, op.Type, err)
				}
				progressed = true
			}
		}
		if !progressed {
			return nil
		}
	}
	return fmt.Errorf("no quiescence")
}

type outcome13 struct {
	States []string
	Signed bool
	Detail string
}

// runCeremony executes key generation + one signing batch and returns the outcome.
func (c *crashRun) runCeremony(r *kit.Run, restartAfterEveryStep bool) (outcome13, error) {
	w := c.w
	round, err := w.StartDKG(c.t, (c.v+1)%c.n)
	if err != nil {
		return outcome13{}, err
	}
	if err := c.drive(r, restartAfterEveryStep, nil); err != nil {
		return outcome13{}, err
	}
	out := outcome13{}
	ready := true
	for _, nd := range w.Nodes {
		st := nd.RoundState(round)
		out.States = append(out.States, st)
		if st != string(sif.StateSigningIdle) {
			ready = false
		}
	}
	if !ready {
		out.Detail = "key generation did not complete"
		return out, nil
	}
	payload := []byte("c13 payload")
	w.Propose((c.v+1)%c.n, round, "c13-batch", world.SimpleTasks("c13", payload))
	if err := c.drive(r, restartAfterEveryStep, nil); err != nil {
		return out, err
	}
	out.States = nil
	krs, _ := w.Airs[0].M.GetBLSKeyrings()
	if krs[round] == nil {
		out.Detail = "no keyring"
		return out, nil
	}
	gk, _ := oracle.GroupKeyBytes(krs[round])
	out.Signed = true
	for i, nd := range w.Nodes {
		st := nd.RoundState(round)
		out.States = append(out.States, st)
		if st != string(sif.StateSigningIdle) {
			out.Signed = false
			out.Detail = fmt.Sprintf("node %d ends in %s", i, st)
		}
		sigs, err := nd.Sigs.GetSignatures(dtoRound(round))
		ok := false
		if err == nil {
			for _, e := range sigs["c13-batch"]["c13-msg0"] {
				if len(e.Signature) > 0 && oracle.VerifyETH(gk, payload, e.Signature) == nil {
					ok = true
				}
			}
		}
		if !ok {
			out.Signed = false
			if out.Detail == "" {
				out.Detail = fmt.Sprintf("node %d holds no valid signature for the batch", i)
			}
		}
	}
	return out, nil
}

func c13(tier string, args []string) int {
	r := newRun("C13", tier, "fault_enumeration")
	r.Assume = []string{
		"node under test runs over the real LevelDBState on tmpfs; a single LevelDB Put is atomic (LevelDB's contract); a multi-message Send is one append per message",
		"crash = the process dies immediately before or after a durable effect (state-store write or board append); restart = new LevelDBState + new services + new Poll loop on the same directory",
		"canonical schedule; the other nodes are honest and never crash",
	}
	cfgs := []struct{ n, t, v int }{{2, 2, 0}, {2, 2, 1}, {3, 2, 0}, {3, 2, 2}}
	if tier == "thorough" {
		cfgs = append(cfgs, struct{ n, t, v int }{3, 3, 1}, struct{ n, t, v int }{4, 3, 0}, struct{ n, t, v int }{4, 3, 3}, struct{ n, t, v int }{4, 2, 1})
	}
	evals, distinct := 0, 0
	for _, cf := range cfgs {
		// reference run: count the durable effects, record the outcome
		ref := newCrashRun(r, cf.n, cf.t, cf.v)
		want, err := ref.runCeremony(r, false)
		if err != nil || !want.Signed {
			r.Infra("reference ceremony n=%d t=%d did not complete: %v %s", cf.n, cf.t, err, want.Detail)
		}
		E := ref.effects
		effLog := append([]string(nil), ref.log...)
		ref.close()
		r.Sample(map[string]interface{}{"n": cf.n, "t": cf.t, "node": cf.v, "durable_effects": E, "first_effects": effLog[:min(8, len(effLog))]})
		type plan struct {
			at    []int
			ph    []string
			clean bool
		}
		var plans []plan
		for e := 1; e <= E; e++ {
			for _, ph := range []string{"pre", "post"} {
				plans = append(plans, plan{at: []int{e}, ph: []string{ph}})
			}
		}
		plans = append(plans, plan{clean: true})
		if (tier == "thorough" && cf.n <= 3 && cf.t == 2) || (cf.n == 2 && cf.v == 0) {
			// pairs of crashes (second one counted in the effects of the resumed run)
			for e1 := 1; e1 <= E; e1 += 2 {
				for e2 := e1 + 1; e2 <= E+6; e2 += 3 {
					plans = append(plans, plan{at: []int{e1, e2}, ph: []string{"post", "pre"}})
				}
			}
		}
		var mu sync.Mutex
		var wg sync.WaitGroup
		ch := make(chan plan)
		for wk := 0; wk < 12; wk++ {
			wg.Add(1)
			go func() {
				defer wg.Done()
				for p := range ch {
					c := newCrashRun(r, cf.n, cf.t, cf.v)
					c.crashAt, c.crashPhase = p.at, p.ph
					got, err := c.runCeremony(r, p.clean)
					crashes := append([]string(nil), c.crashes...)
					c.close()
					mu.Lock()
					evals++
					if len(crashes) > 0 || p.clean {
						distinct++
					}
					mu.Unlock()
					label := "clean restart after every step"
					key := "clean-restarts"
					if !p.clean {
						label = strings.Join(crashes, "; then ")
						key = crashClass(crashes)
					}
					trace := map[string]interface{}{"n": cf.n, "t": cf.t, "node": cf.v, "crashes": crashes, "clean_restarts": p.clean}
					if err != nil {
						r.Violation("C13/ceremony-broken/"+key, fmt.Sprintf("n=%d t=%d node %d, %s: the ceremony could not be driven on: %v", cf.n, cf.t, cf.v, label, err), trace)
						continue
					}
					if !got.Signed && len(crashes) > 1 {
						// several crashes in one run: if one of them alone is a recorded finding,
						// the outcome is attributed to it
						for _, c1 := range crashes {
							k1 := "C13/outcome-differs/" + crashClass([]string{c1})
							if r.IsKnown(k1) {
								key = crashClass([]string{c1})
							}
						}
					}
					if !got.Signed {
						r.Violation("C13/outcome-differs/"+key, fmt.Sprintf("n=%d t=%d node %d, %s: after restart the ceremony does not reach the outcome of the uninterrupted run (%s; states %v)", cf.n, cf.t, cf.v, label, got.Detail, got.States), trace)
					}
				}
			}()
		}
		for _, p := range plans {
			if r.TimeUp() {
				break
			}
			ch <- p
		}
		close(ch)
		wg.Wait()
	}
	r.Set("evaluations", evals)
	r.Set("distinct_nontrivial", distinct)
	r.Set("rule", "for every durable effect (LevelDB write, board append) of the node during a complete key generation + signing batch: kill the process immediately before and immediately after it, restart on the same directory and drive the ceremony on with the canonical schedule; plus a clean restart after every step (and pairs of crashes in the thorough tier); oracle: every node ends signing-ready/idle holding a blst-valid signature of the batch, as in the uninterrupted run; distinct = plans in which the planned crash actually fired")
	return finish(r)
}

// crashClass turns crash descriptions into a stable class (effect kind + step, no counters).
func crashClass(crashes []string) string {
	var cl []string
	for _, c := range crashes {
		// "before effect 12 (put:rounds) during poll:event_x"
		f := strings.Fields(c)
		if len(f) >= 6 {
			k := f[0] + "-" + strings.Trim(f[3], "()")
			// the instant after the round was saved and the instant before the operation is
			// saved are the same window
			if (k == "after-put:rounds" || k == "before-put:operations") && strings.HasPrefix(f[5], "poll:") {
				k = "between-round-save-and-operation-save"
			}
			cl = append(cl, k+"/"+f[5])
		}
	}
	sort.Strings(cl)
	return strings.Join(cl, "+")
}

func dtoRound(round string) *dto.DkgIdDTO { return &dto.DkgIdDTO{DkgID: round} }
