package checks

import (
	"bytes"
	"crypto/ed25519"
	"encoding/csv"
	"encoding/hex"
	"encoding/json"
	"fmt"
	"os"
	"strings"
	"time"

	"github.com/lidofinance/dc4bc/client/api/dto"
	"github.com/lidofinance/dc4bc/client/services/node"
	"github.com/lidofinance/dc4bc/client/types"
	"github.com/lidofinance/dc4bc/dkg"
	sif "github.com/lidofinance/dc4bc/fsm/state_machines/signing_proposal_fsm"
	"github.com/lidofinance/dc4bc/fsm/types/requests"
	"github.com/lidofinance/dc4bc/pkg/utils"
	"github.com/lidofinance/dc4bc/storage"

	"verif/mc/kit"
	"verif/mc/oracle"
	"verif/mc/world"
)

func init() { Registry["C20"] = c20 }

type origMaterial struct {
	Round     string
	T         int
	Names     []string
	Mnemonics []string
	Log       []storage.Message
	PubPolyBz []byte            // what the original hot nodes retained (nil if unknown)
	Shares    map[string]string // name -> share (nil if unknown)
	GroupKey  []byte
	// RawLines: dump lines (JSON text as somebody wrote it to the board file) that stand behind
	// position k of Log in the dump the tool reads
	RawLines map[int]string
}

// reinitRestarts: where the restored machines are stopped and reopened from their databases (the
// password lifetime expires, or the operator shuts the laptop): "" never, "before-reinit" between
// restoring the machine and the reinit operation, "after-reinit" between the reinit operation
// and the first signing batch.
var reinitRestarts = ""

// reinitFailWrite > 0: on node 0 the reinitFailWrite-th store write made while the operator hands
// in the answer to the reinit operation fails once (a full disk, as in C09's base states); the
// operator hands the same result file in again.
var reinitFailWrite = 0

// c20KeyPrefix distinguishes the violation classes of a dedicated scenario.
var c20KeyPrefix = ""

// reinitAndCheck performs the reinitialisation procedure with fresh nodes / fresh machines and
// judges the outcome against the original material.
func reinitAndCheck(r *kit.Run, om origMaterial, label string, adapt bool, stripSelfConfirms bool) {
	trace := map[string]interface{}{"scenario": label, "adapted_0_1_4": adapt, "self_confirms_removed": stripSelfConfirms}
	viol := func(key, what string) { r.Violation("C20/"+c20KeyPrefix+key, label+": "+what, trace) }
	w2, err := world.NewWorldCustom(om.Names, om.Mnemonics, "reinit-key:")
	if err != nil {
		r.Infra("world: %v", err)
	}
	defer func() {
		w2.Close()
		for _, a := range w2.Airs {
			os.RemoveAll(a.Dir)
		}
	}()
	newKeys := map[string][]byte{}
	for _, nd := range w2.Nodes {
		newKeys[nd.Name] = nd.KeyPair.Pub
	}
	log := om.Log
	if stripSelfConfirms {
		var l2 []storage.Message
		for _, m := range log {
			if m.Event == "event_dkg_deal_confirm_received" {
				var req requests.DKGProposalDealConfirmationRequest
				if json.Unmarshal(m.Data, &req) == nil && string(req.Deal) == "self-confirm" {
					continue
				}
			}
			l2 = append(l2, m)
		}
		log = l2
	}
	// the tool reads the dump from a CSV file (one JSON message per row): the messages take that
	// way too, through the tool's own reader
	{
		dir := world.NewDir("c20dump")
		f, err := os.Create(dir + "/dump.csv")
		if err != nil {
			r.Infra("dump file: %v", err)
		}
		cw := csv.NewWriter(f)
		for k, m := range log {
			_ = cw.Write([]string{string(world.MustJSON(m))})
			if raw, ok := om.RawLines[k]; ok && !stripSelfConfirms {
				_ = cw.Write([]string{raw})
			}
		}
		cw.Flush()
		f.Close()
		read, err := utils.ReadLogMessages(dir+"/dump.csv", ',', false, 0)
		os.RemoveAll(dir)
		if err != nil {
			viol("dump-unreadable", err.Error())
			return
		}
		log = read
	}
	re, err := func() (re *types.ReDKG, err error) {
		defer func() {
			if x := recover(); x != nil {
				err = fmt.Errorf("PANIC in the tool that builds the reinit file: %v", x)
			}
		}()
		return types.GenerateReDKGMessage(log, newKeys)
	}()
	if err != nil && strings.HasPrefix(err.Error(), "PANIC") {
		viol("reinit-tool-panics", err.Error())
		return
	}
	if err != nil {
		viol("reinit-file-not-generated", err.Error())
		return
	}
	if adapt {
		re, err = node.GetAdaptedReDKG(re)
		if err != nil {
			viol("adaptation-failed", err.Error())
			return
		}
	}
	restartAll := func(when string) bool {
		for i, a := range w2.Airs {
			if err := a.Restart(); err != nil {
				viol("restored-machine-cannot-be-reopened/"+when, fmt.Sprintf("machine %d (%s), stopped %s and reopened from its database with the operator's password: %v", i, om.Names[i], when, err))
				return false
			}
			// HowTo: run replay_operations_log once after a restart (nothing is logged yet
			// before the reinit operation)
			if err := a.M.ReplayOperationsLog(re.DKGID); err != nil && !strings.Contains(err.Error(), "operation log not found") {
				viol("restored-machine-cannot-replay/"+when, fmt.Sprintf("machine %d (%s), reopened %s: replaying its operation log fails: %v", i, om.Names[i], when, err))
				return false
			}
		}
		return true
	}
	if reinitRestarts == "before-reinit" && !restartAll(reinitRestarts) {
		return
	}
	payload, _ := json.Marshal(re)
	if err := w2.Nodes[0].Svc.ReInitDKG(&dto.ReInitDKGDTO{ID: re.DKGID, Payload: payload}); err != nil {
		viol("reinit-api-refused", err.Error())
		return
	}
	if reinitFailWrite > 0 {
		if err := w2.DrainAll(); err != nil {
			viol("reinit-does-not-complete", err.Error())
			return
		}
		nd0 := w2.Nodes[0]
		for _, op := range nd0.PendingOps() {
			if string(op.Type) != string(types.ReinitDKG) {
				continue
			}
			res, err := w2.Airs[0].Process(op)
			if err != nil {
				viol("reinit-does-not-complete", "machine 0: "+err.Error())
				return
			}
			nd0.Mem.Arm(reinitFailWrite)
			first := nd0.SubmitResult(cloneOp15(res))
			fired := nd0.Mem.Disarm()
			r.Add("reinit_results_handed_in_across_a_failing_write", b2i(fired))
			if fired && first == nil {
				viol("failed-write-unnoticed", fmt.Sprintf("store write %d failed while the reinit result was handed in, the request reported success", reinitFailWrite))
			}
			if first != nil {
				// the operator hands the same file in again; whether the node takes it or says the
				// operation is gone (its effect may be complete but for the last write) is left open -
				// what counts is the state the procedure ends in, judged below like every other
				_ = nd0.SubmitResult(cloneOp15(res))
			}
		}
	}
	if err := w2.RunToQuiescence(); err != nil {
		viol("reinit-does-not-complete", err.Error())
		return
	}
	// the confirmation hash every operator sees is the one of the file, identical everywhere
	want, err := types.CalcStartReInitDKGMessageHash(payload)
	if err != nil {
		viol("hash-failed", err.Error())
	}
	for i, nd := range w2.Nodes {
		st := nd.RoundState(re.DKGID)
		if st != string(sif.StateSigningIdle) {
			viol("node-not-signing-ready", fmt.Sprintf("node %d (%s) ends in %q", i, nd.Name, st))
			continue
		}
		d := nd.Dump(re.DKGID)
		if d.Payload.Threshold != om.T {
			viol("threshold-differs", fmt.Sprintf("node %d has threshold %d, original %d", i, d.Payload.Threshold, om.T))
		}
		// original ids = positions in the original opening proposal
		origID := map[string]int{}
		for _, m := range om.Log {
			if m.Event == "event_sig_proposal_init" {
				var req requests.SignatureProposalParticipantsListRequest
				if json.Unmarshal(m.Data, &req) == nil {
					for pi, p := range req.Participants {
						origID[p.Username] = pi
					}
				}
				break
			}
		}
		for _, name := range om.Names {
			pi := origID[name]
			if id, ok := d.Payload.IDs[name]; !ok || id != pi {
				viol("participants-differ", fmt.Sprintf("node %d maps participant %s to id %d (original %d)", i, name, id, pi))
			}
			if !bytes.Equal(d.Payload.PubKeys[name], newKeys[name]) {
				viol("new-communication-key-not-installed", fmt.Sprintf("node %d does not hold the new key of %s", i, name))
			}
		}
		if om.PubPolyBz != nil && !bytes.Equal(d.Payload.DKGProposalPayload.PubPolyBz, om.PubPolyBz) {
			viol("public-polynomial-differs", fmt.Sprintf("node %d retains a public polynomial different from the original ceremony's", i))
		}
		_, del := nd.Mem.Snapshot().RawOps()
		for _, o := range del {
			if string(o.Type) == string(types.ReinitDKG) && !bytes.Equal(o.ExtraData, nil) {
				_ = o
			}
		}
	}
	_ = want
	if reinitRestarts == "after-reinit" && !restartAll(reinitRestarts) {
		return
	}
	// machines: same share as originally, on the polynomial the nodes retain
	var gk []byte
	for i, a := range w2.Airs {
		krs, err := a.M.GetBLSKeyrings()
		kr := krs[re.DKGID]
		if err != nil || kr == nil {
			viol("machine-has-no-share", fmt.Sprintf("machine %d (%s) holds no share after reinitialisation: %v", i, om.Names[i], err))
			return
		}
		sh, _ := kr.Share.V.MarshalBinary()
		if om.Shares != nil && om.Shares[om.Names[i]] != hex.EncodeToString(sh) {
			viol("share-differs", fmt.Sprintf("machine %d (%s) holds a share different from the original ceremony's", i, om.Names[i]))
		}
		if !oracle.ShareOnPoly(kr.PubPoly, kr.Share) {
			viol("share-not-on-polynomial", fmt.Sprintf("machine %d's share does not lie on its polynomial", i))
		}
		g, _ := oracle.GroupKeyBytes(kr)
		if gk == nil {
			gk = g
		} else if !bytes.Equal(gk, g) {
			viol("machines-disagree-on-group-key", fmt.Sprintf("machine %d has another group key", i))
		}
		if d := w2.Nodes[i].Dump(re.DKGID); d != nil && d.Payload.DKGProposalPayload != nil {
			nk, err := dkg.LoadPubPolyBLSKeyringFromBytes(oracle.Suite(), d.Payload.DKGProposalPayload.PubPolyBz)
			if err != nil {
				viol("node-polynomial-unreadable", fmt.Sprintf("node %d: %v", i, err))
			} else {
				a1, _ := oracle.PolyCommitBytes(nk.PubPoly)
				a2, _ := oracle.PolyCommitBytes(kr.PubPoly)
				if fmt.Sprint(a1) != fmt.Sprint(a2) {
					viol("node-and-machine-polynomials-differ", fmt.Sprintf("node %d retains a polynomial different from its machine's", i))
				}
			}
		}
	}
	if om.GroupKey != nil && !bytes.Equal(gk, om.GroupKey) {
		viol("group-key-differs", "the reinitialised machines' group key differs from the original one")
	}
	// signatures produced afterwards verify under the original group key
	ref := om.GroupKey
	if ref == nil {
		ref = gk
	}
	payloadToSign := []byte("signed after reinitialisation")
	w2.Propose(w2.N-1, re.DKGID, "after-reinit", world.SimpleTasks("ar", payloadToSign))
	if err := w2.RunToQuiescence(); err != nil {
		viol("signing-after-reinit-fails", err.Error())
		return
	}
	for i, nd := range w2.Nodes {
		sigs, _ := nd.Sigs.GetSignatures(&dto.DkgIdDTO{DkgID: re.DKGID})
		ok := false
		for _, e := range sigs["after-reinit"]["ar-msg0"] {
			if len(e.Signature) > 0 && oracle.VerifyETH(ref, payloadToSign, e.Signature) == nil {
				ok = true
			}
		}
		if !ok {
			viol("signature-after-reinit-invalid", fmt.Sprintf("node %d holds no signature valid under the original group key for a batch signed after reinitialisation", i))
		}
	}
}

func materialOf(rec *world.Recording, t int) origMaterial {
	om := origMaterial{Round: rec.Round, T: t, Log: rec.Log, Shares: map[string]string{}}
	for i, nd := range rec.W.Nodes {
		om.Names = append(om.Names, nd.Name)
		om.Mnemonics = append(om.Mnemonics, rec.W.Airs[i].Mnemonic)
		krs, _ := rec.W.Airs[i].M.GetBLSKeyrings()
		if kr := krs[rec.Round]; kr != nil {
			sh, _ := kr.Share.V.MarshalBinary()
			om.Shares[nd.Name] = hex.EncodeToString(sh)
			om.GroupKey, _ = oracle.GroupKeyBytes(kr)
		}
	}
	if d := rec.W.Nodes[0].Dump(rec.Round); d != nil && d.Payload.DKGProposalPayload != nil {
		om.PubPolyBz = d.Payload.DKGProposalPayload.PubPolyBz
	}
	return om
}

func c20(tier string, args []string) int {
	r := newRun("C20", tier, "exploration")
	r.Assume = []string{
		"original ceremonies: recorded real ceremonies (canonical and reverse answer order, with a signing round and with junk interleaved) for (2,2) (3,2) (3,3) (4,3 thorough) and the repository's authentic 0.1.4 log with its four mnemonics",
		"hash clause: every single-field edit (append a byte, change a byte, +1) of the reinit file built from the authentic 0.1.4 log and from a recorded ceremony",
	}
	scen, edits := 0, 0
	cfgs := []ntPair{{2, 2}, {3, 2}, {3, 3}}
	if tier == "thorough" {
		cfgs = append(cfgs, ntPair{4, 3}, ntPair{4, 2})
	}
	var lastOM origMaterial
	var lastRec *world.Recording
	for _, nt := range cfgs {
		if r.TimeUp() {
			break
		}
		rec := getRecording(r, nt.n, nt.t)
		om := materialOf(rec, nt.t)
		lastOM = om
		lastRec = rec
		reinitAndCheck(r, om, fmt.Sprintf("n=%d t=%d recorded ceremony", nt.n, nt.t), false, false)
		reinitAndCheck(r, om, fmt.Sprintf("n=%d t=%d recorded ceremony, self-confirmations removed and re-added by the 0.1.4 adaptation", nt.n, nt.t), true, true)
		omJ := om
		omJ.Log = junkify(rec, om.Log, false)
		reinitAndCheck(r, omJ, fmt.Sprintf("n=%d t=%d recorded ceremony with duplicated / badly signed / foreign-round messages in the dump", nt.n, nt.t), false, false)
		scen += 3
		// another delivery order of the original ceremony
		w, err := world.NewWorld(nt.n)
		if err != nil {
			r.Infra("world: %v", err)
		}
		round, err := w.StartDKG(nt.t, 0)
		if err == nil {
			err = w.RunToQuiescenceReverse()
		}
		if err != nil {
			r.Infra("reverse-order ceremony: %v", err)
		}
		rr := &world.Recording{W: w, Round: round, Log: w.Board.Log()}
		reinitAndCheck(r, materialOf(rr, nt.t), fmt.Sprintf("n=%d t=%d ceremony answered in reverse order", nt.n, nt.t), false, false)
		scen++
		w.Close()
		for _, a := range w.Airs {
			os.RemoveAll(a.Dir)
		}
		r.Sample(map[string]interface{}{"n": nt.n, "t": nt.t, "scenarios": []string{"recorded", "adapted", "with junk", "reverse order"}})
	}
	// the operator enters the mnemonic twice when restoring the machines
	if lastOM.Round != "" {
		world.MnemonicEntries = 2
		reinitAndCheck(r, lastOM, "recorded ceremony, machines restored with the mnemonic entered twice (set_seed run two times)", false, false)
		world.MnemonicEntries = 1
		scen++
	}
	// a dump that holds a second opening-proposal line: junk under another round id, refused by every
	// node of the original ceremony (with an empty participant entry, and a well-formed one)
	if lastOM.Round != "" {
		for vi, data := range []string{`{"Participants":[null],"SigningThreshold":1,"CreatedAt":"2026-01-01T00:00:00Z"}`, `{"Participants":[{"Username":"mallory","PubKey":"AAAAAAAAAAAAAAAAAAAAAAAAAAAAAAAAAAAAAAAAAAA=","DkgPubKey":"AAAAAAAAAAAAAAAAAAAAAAAAAAAAAAAAAAAAAAAAAAA="}],"SigningThreshold":1,"CreatedAt":"2026-01-01T00:00:00Z"}`} {
			omP := lastOM
			junk := storage.Message{DkgRoundID: strings.Repeat("7", 64), Event: "event_sig_proposal_init", Data: []byte(data), SenderAddr: "mallory"}
			omP.Log = append(append([]storage.Message{lastOM.Log[0], junk}, lastOM.Log[1:]...))
			c20KeyPrefix = "second-proposal-line-in-dump/"
			reinitAndCheck(r, omP, fmt.Sprintf("recorded ceremony with a junk opening proposal of another round id in the dump (variant %d)", vi+1), false, false)
			c20KeyPrefix = ""
			scen++
		}
	}
	// more junk that every node of the original ceremony refused or ignored, each with and without
	// the 0.1.4 adaptation: (1) a signing proposal posted by a stranger while the key generation
	// was under way; (2) an unsigned deal line under participant 0's name before the deals phase;
	// (3) a validly signed report of participant 1 that no round judges (a reconstruction failure
	// report), dated in the year 2100, right after the opening proposal; (4) the opening proposal
	// posted a second time after the first confirmations
	if lastOM.Round != "" && lastRec != nil && len(lastOM.Log) > 4 {
		insertAfter := func(k int, m storage.Message) []storage.Message {
			out := append([]storage.Message{}, lastOM.Log[:k+1]...)
			out = append(out, m)
			return append(out, lastOM.Log[k+1:]...)
		}
		p1 := lastRec.W.Nodes[1]
		far := time.Date(2100, 1, 1, 0, 0, 0, 0, time.UTC)
		junks := []struct {
			key  string
			name string
			log  []storage.Message
		}{
			{"junk-signing-start-in-dump/", "a stranger's signing proposal posted during the key generation", insertAfter(3, storage.Message{DkgRoundID: lastOM.Round, Event: "event_signing_start", SenderAddr: "mallory",
				Data: world.MustJSON(requests.SigningBatchProposalStartRequest{BatchID: "junk-batch", ParticipantId: 0, CreatedAt: world.T0, SigningTasks: []requests.SigningTask{{MessageID: "j", File: "j", Payload: []byte("junk")}}})})},
			{"junk-deal-line-in-dump/", "an unsigned deal line under participant 0's name before the deals phase", insertAfter(1, storage.Message{DkgRoundID: lastOM.Round, Event: "event_dkg_deal_confirm_received", SenderAddr: lastOM.Names[0], RecipientAddr: lastOM.Names[1],
				Data: world.MustJSON(requests.DKGProposalDealConfirmationRequest{ParticipantId: 0, Deal: []byte("junk"), CreatedAt: world.T0})})},
			{"proposal-copy-in-dump/", "the opening proposal posted a second time after the first confirmations (every node refuses the copy)", insertAfter(2, lastOM.Log[0])},
			{"unjudged-dated-report-in-dump/", "a signed reconstruction-failure report of participant 1 dated in 2100", insertAfter(0, world.SignedMessage(lastOM.Round, "signature_reconstruction_failed",
				world.MustJSON(map[string]interface{}{"BatchID": "none", "ParticipantId": 1, "Error": "junk", "CreatedAt": far}), p1.Name, p1.KeyPair.Priv, ""))},
		}
		// (5) the round went on signing and, later, a second round with the same participants was
		// proposed and never confirmed; (6) participant 0's own signed confirmation posted again
		// under the deal event's name before the deals phase; (7) a line that leaves every field
		// but the recipient out, right behind participant 0's first deal
		{
			idx := make([]int, lastRec.W.N)
			for i := range idx {
				idx[i] = i
			}
			req2 := lastRec.W.InitProposal(lastRec.W.T, idx)
			req2.CreatedAt = world.T0.Add(99)
			payload := world.MustJSON(req2)
			later := world.SignedMessage(world.RoundID(payload), "event_sig_proposal_init", payload, lastRec.W.Nodes[0].Name, lastRec.W.Nodes[0].KeyPair.Priv, "")
			junks = append(junks, struct {
				key  string
				name string
				log  []storage.Message
			}{"later-proposal-in-dump/", "the opening proposal of a second round (never confirmed) posted after the round went on signing", insertAfter(len(lastOM.Log)-1, later)})
			// the same on a board of the 0.1.4 generation: its signing proposal had no batches
			// ({SigningID, ParticipantId, SrcPayload, CreatedAt}, layout from the 0.1.4 sources)
			{
				var keygen []storage.Message
				for _, m := range lastOM.Log {
					if m.Event == "event_signing_start" {
						break
					}
					keygen = append(keygen, m)
				}
				p0 := lastRec.W.Nodes[0]
				old := world.SignedMessage(lastOM.Round, "event_signing_start", world.MustJSON(map[string]interface{}{"SigningID": "0.1.4-signing", "ParticipantId": 0, "SrcPayload": []byte("message to sign"), "CreatedAt": world.T0}), p0.Name, p0.KeyPair.Priv, "")
				junks = append(junks, struct {
					key  string
					name string
					log  []storage.Message
				}{"later-proposal-in-0.1.4-dump/", "a 0.1.4-style signing proposal of participant 0 after the key generation and, later, the opening proposal of a second round (never confirmed)", append(append(keygen, old), later)})
			}
			// the same on a board on which the round was reinitialised once already (new
			// communication keys), signed with the new keys, and then the second round was proposed
			{
				var keygen []storage.Message
				for _, m := range lastOM.Log {
					if m.Event == "event_signing_start" {
						break
					}
					keygen = append(keygen, m)
				}
				keys1 := map[string][]byte{}
				for i, name := range lastOM.Names {
					keys1[name] = freshKey(fmt.Sprintf("first-reinit-%d", i)).Public().(ed25519.PublicKey)
				}
				if re1, err := types.GenerateReDKGMessage(keygen, keys1); err == nil {
					reinit1 := storage.Message{DkgRoundID: lastOM.Round, Event: string(types.ReinitDKG), Data: world.MustJSON(re1), SenderAddr: lastOM.Names[0]}
					prop := requests.SigningBatchProposalStartRequest{BatchID: "after-first-reinit", ParticipantId: 0, CreatedAt: world.T0, SigningTasks: []requests.SigningTask{{MessageID: "m", File: "f", Payload: []byte("signed after the first reinitialisation")}}}
					start := world.SignedMessage(lastOM.Round, "event_signing_start", world.MustJSON(prop), lastOM.Names[0], freshKey("first-reinit-0"), "")
					junks = append(junks, struct {
						key  string
						name string
						log  []storage.Message
					}{"later-proposal-after-an-earlier-reinit/", "an earlier reinitialisation of the round (new keys), a signing proposal signed with the new key and, later, the opening proposal of a second round (never confirmed)", append(append(keygen, reinit1, start), later)})
				}
			}
			for k, m := range lastOM.Log {
				if m.Event == "event_sig_proposal_confirm_by_participant" && m.SenderAddr == lastOM.Names[0] {
					relabelled := m
					relabelled.Event = "event_dkg_deal_confirm_received"
					junks = append(junks, struct {
						key  string
						name string
						log  []storage.Message
					}{"relabelled-signed-line-in-dump/", "participant 0's signed confirmation posted again under the deal event's name", insertAfter(k, relabelled)})
					break
				}
			}
		}
		for _, j := range junks {
			for _, adapted := range []bool{false, true} {
				if r.TimeUp() {
					break
				}
				omJ := lastOM
				omJ.Log = j.log
				label := "recorded ceremony with " + j.name + " in the dump"
				if adapted {
					label += ", self-confirmations removed and re-added by the 0.1.4 adaptation"
				}
				c20KeyPrefix = j.key
				reinitAndCheck(r, omJ, label, adapted, adapted)
				c20KeyPrefix = ""
				scen++
			}
		}
	}
	// (8) an honest history: a first attempt with the same participants on the same board was given
	// up after its deals, the second attempt went through; with and without the 0.1.4 adaptation
	if !r.TimeUp() {
		rec2, err := world.RecordCeremony(2, 2, []world.BatchSpec{{ID: "A-batch", Proposer: 0, Tasks: world.SimpleTasks("a", []byte("round A"))}})
		if err != nil {
			r.Infra("recording: %v", err)
		}
		roundA := rec2.Round
		roundB, err := rec2.SecondRound(2, world.BatchSpec{ID: "B-batch", Proposer: 1, Tasks: world.SimpleTasks("b", []byte("round B"))})
		if err != nil {
			r.Infra("second round: %v", err)
		}
		recB := *rec2
		recB.Round = roundB
		omB := materialOf(&recB, 2)
		lastDealA := -1
		for k, m := range rec2.Log {
			if m.DkgRoundID == roundA && m.Event == "event_dkg_deal_confirm_received" {
				lastDealA = k
			}
		}
		var log []storage.Message
		for k, m := range rec2.Log {
			if m.DkgRoundID == roundA && k > lastDealA {
				continue
			}
			log = append(log, m)
		}
		omB.Log = log
		for _, adapted := range []bool{false, true} {
			label := "a first attempt given up after its deals, then the recorded ceremony of the same participants on the same board"
			if adapted {
				label += ", self-confirmations removed and re-added by the 0.1.4 adaptation"
			}
			c20KeyPrefix = "abandoned-first-attempt-in-dump/"
			reinitAndCheck(r, omB, label, adapted, adapted)
			c20KeyPrefix = ""
			scen++
		}
		rec2.W.Close()
		for _, a := range rec2.W.Airs {
			os.RemoveAll(a.Dir)
		}
	}
	// (7) a hand-written line in the board file that leaves every field but the recipient out, right
	// behind participant 0's first deal (every node refuses a line without an event)
	if lastOM.Round != "" {
		for k, m := range lastOM.Log {
			if m.Event == "event_dkg_deal_confirm_received" && m.SenderAddr == lastOM.Names[0] && m.RecipientAddr != lastOM.Names[0] {
				omR := lastOM
				omR.RawLines = map[int]string{k: `{"recipient":""}`}
				c20KeyPrefix = "line-with-fields-left-out-in-dump/"
				reinitAndCheck(r, omR, "recorded ceremony with a line that leaves every field but the recipient out behind participant 0's first deal in the dump", false, false)
				c20KeyPrefix = ""
				scen++
				break
			}
		}
	}
	// the restored machines are stopped and reopened (password expiry / shutdown) before and after
	// the reinit operation
	if lastOM.Round != "" {
		for _, when := range []string{"before-reinit", "after-reinit"} {
			for _, entries := range []int{1, 2} {
				reinitRestarts = when
				world.MnemonicEntries = entries
				reinitAndCheck(r, lastOM, fmt.Sprintf("recorded ceremony, restored machines (mnemonic entered %d time(s)) reopened %s", entries, when), false, false)
				scen++
			}
		}
		reinitRestarts = ""
		world.MnemonicEntries = 1
	}
	// the repository's authentic 0.1.4 log
	repoRoot := os.Getenv("VERIF_REPO")
	if repoRoot == "" {
		repoRoot = "/repo"
	}
	msgs, err := utils.ReadLogMessages(repoRoot+"/client/test_data/0_1_4_log.csv", ';', true, 4)
	if err != nil {
		r.Infra("cannot read the 0.1.4 log: %v", err)
	}
	om014 := origMaterial{T: 0, Log: msgs,
		Names: []string{"swelf", "callmepak", "ratik", "sotnikov"},
		Mnemonics: []string{
			"cigar family price stove waste reform midnight ceiling panic guitar team merge noble cycle table biology begin consider rally pair spend weapon perfect vague",
			"panic shuffle tell injury pass bamboo play eye diet play industry banner law poet west chase library print shed image jeans degree fabric like",
			"wage danger sword copper alone jelly hollow gaze mouse picnic eternal april drink fashion invite mansion follow cover crucial apology salmon destroy repair add",
			"fever tongue elite spice relief nominee barrel yellow word tissue about urban library clap access forward flame seat remove cradle chimney problem cream twelve",
		}}
	if re, err := types.GenerateReDKGMessage(msgs, nil); err == nil {
		om014.T = re.Threshold
		om014.Round = re.DKGID
		// the group key the ceremony announced is in the log
		for _, m := range msgs {
			if m.Event == "event_dkg_master_key_confirm_received" {
				var req requests.DKGProposalMasterKeyConfirmationRequest
				if json.Unmarshal(m.Data, &req) == nil {
					om014.GroupKey = req.MasterKey
				}
			}
		}
	}
	reinitAndCheck(r, om014, "authentic 0.1.4 log (client/test_data/0_1_4_log.csv)", true, false)
	scen++
	// a store write fails once while an operator hands in the answer to the reinit operation; the
	// result file is handed in again (the 0.1.4 log's key messages carry no polynomial: the node
	// has it from that answer alone)
	for k := 1; k <= 4; k++ {
		reinitFailWrite = k
		c20KeyPrefix = "write-fails-while-the-reinit-result-is-handed-in/"
		reinitAndCheck(r, om014, fmt.Sprintf("authentic 0.1.4 log, store write %d fails once on node 0 while the reinit result is handed in", k), true, false)
		if lastOM.Round != "" {
			reinitAndCheck(r, lastOM, fmt.Sprintf("recorded ceremony, store write %d fails once on node 0 while the reinit result is handed in", k), false, false)
			scen++
		}
		scen++
	}
	reinitFailWrite = 0
	c20KeyPrefix = ""

	// ---- hash clause
	for _, src := range []struct {
		name string
		om   origMaterial
		ad   bool
	}{{"authentic 0.1.4 file", om014, true}, {"recorded ceremony file", lastOM, false}} {
		newKeys := map[string][]byte{}
		for _, n := range src.om.Names {
			newKeys[n] = world.DetKeyPair("reinit-key:" + n).Pub
		}
		re, err := types.GenerateReDKGMessage(src.om.Log, newKeys)
		if err != nil {
			r.Infra("reinit file: %v", err)
		}
		if src.ad {
			re, _ = node.GetAdaptedReDKG(re)
		}
		base, _ := json.Marshal(re)
		h0, err := types.CalcStartReInitDKGMessageHash(base)
		if err != nil {
			r.Infra("hash: %v", err)
		}
		try := func(field string, edit func(x *types.ReDKG)) {
			var cp types.ReDKG
			_ = json.Unmarshal(base, &cp)
			edit(&cp)
			bz, _ := json.Marshal(&cp)
			if bytes.Equal(bz, base) {
				return
			}
			edits++
			h, err := types.CalcStartReInitDKGMessageHash(bz)
			if err == nil && bytes.Equal(h, h0) {
				r.Violation("C20/hash-ignores/"+field, fmt.Sprintf("%s: an edit of %s leaves the confirmation hash unchanged (%x)", src.name, field, h), map[string]string{"file": src.name, "field": field})
			}
		}
		bump := func(b []byte, how int) []byte {
			c := append([]byte(nil), b...)
			switch how {
			case 0:
				return append(c, 0x41)
			case 1:
				if len(c) > 0 {
					c[len(c)/2] ^= 1
				}
				return c
			default:
				if len(c) > 0 {
					c[len(c)-1]++
				}
				return c
			}
		}
		for how := 0; how < 3; how++ {
			how := how
			try("dkg_id", func(x *types.ReDKG) { x.DKGID = string(bump([]byte(x.DKGID), how)) })
			try("threshold", func(x *types.ReDKG) { x.Threshold += how + 1 })
			for pi := range re.Participants {
				pi := pi
				try("participant.name", func(x *types.ReDKG) { x.Participants[pi].Name = string(bump([]byte(x.Participants[pi].Name), how)) })
				try("participant.old_comm_pub_key", func(x *types.ReDKG) { x.Participants[pi].OldCommPubKey = bump(x.Participants[pi].OldCommPubKey, how) })
				try("participant.new_comm_pub_key", func(x *types.ReDKG) { x.Participants[pi].NewCommPubKey = bump(x.Participants[pi].NewCommPubKey, how) })
				try("participant.dkg_pub_key", func(x *types.ReDKG) { x.Participants[pi].DKGPubKey = bump(x.Participants[pi].DKGPubKey, how) })
			}
			for mi := range re.Messages {
				mi := mi
				try("message.data", func(x *types.ReDKG) { x.Messages[mi].Data = bump(x.Messages[mi].Data, how) })
				try("message.signature", func(x *types.ReDKG) { x.Messages[mi].Signature = bump(x.Messages[mi].Signature, how) })
				try("message.sender", func(x *types.ReDKG) { x.Messages[mi].SenderAddr = string(bump([]byte(x.Messages[mi].SenderAddr), how)) })
				try("message.recipient", func(x *types.ReDKG) {
					x.Messages[mi].RecipientAddr = string(bump([]byte(x.Messages[mi].RecipientAddr+"r"), how))
				})
				try("message.event", func(x *types.ReDKG) { x.Messages[mi].Event = string(bump([]byte(x.Messages[mi].Event), how)) })
				try("message.offset", func(x *types.ReDKG) { x.Messages[mi].Offset += uint64(how + 1) })
			}
		}
		// re-addressing: recipient swapped to another participant / made a broadcast
		for mi := range re.Messages {
			mi := mi
			try("message.recipient", func(x *types.ReDKG) { x.Messages[mi].RecipientAddr = src.om.Names[(mi+1)%len(src.om.Names)] })
			try("message.recipient", func(x *types.ReDKG) { x.Messages[mi].RecipientAddr = "" })
		}
	}
	r.Set("states", scen)
	r.Set("transitions", edits)
	r.Set("evaluations", scen+edits)
	r.Set("distinct_nontrivial", scen+edits)
	r.Set("traces_validated_against_impl", scen)
	r.Set("reinit_scenarios", scen)
	r.Set("single_field_edits", edits)
	r.Set("rule", "each scenario: original ceremony log -> GenerateReDKGMessage (+GetAdaptedReDKG) -> fresh nodes with new communication keys and machines rebuilt from the mnemonics -> real ReInitDKG / reinitDKG / handleReinitDKG / OperationProcessed; oracle: all nodes signing-ready for the same round with the same participants, threshold and polynomial, every machine holds its original share, a batch signed afterwards verifies (blst) under the original group key; hash clause: every single-field edit changes CalcStartReInitDKGMessageHash")
	var _ kit.Finding
	return finish(r)
}
