package checks

// C02, two rounds on the same machines. "Whenever a round reaches the signing-ready state ... all
// n machines hold a share lying on one polynomial ..." is a statement about every round of a
// deployment, also when another round of the same machines ends before, after or in between.
// A second round is opened under an identifier that is unrelated to the first one's, or differs
// from it only by white space or letter case (the sender of an opening proposal chooses the
// identifier), with another threshold; both ceremonies are run to the end, one after the other
// in both orders and with their answers interleaved, and BOTH rounds are judged at the end, and
// once more after the machines were stopped and reopened.

import (
	"bytes"
	"fmt"
	"os"
	"strings"

	"github.com/corestario/kyber/share"
	"github.com/corestario/kyber/sign/tbls"

	"github.com/lidofinance/dc4bc/dkg"
	spf "github.com/lidofinance/dc4bc/fsm/state_machines/signature_proposal_fsm"
	sif "github.com/lidofinance/dc4bc/fsm/state_machines/signing_proposal_fsm"
	"github.com/lidofinance/dc4bc/storage"
	"github.com/lidofinance/dc4bc/verifshim/vleveldb"

	"verif/mc/kit"
	"verif/mc/oracle"
	"verif/mc/world"
)

// judgeRoundOnWorld is keyMaterialOracle on a live world (no search state).
func judgeRoundOnWorld(r *kit.Run, w *world.World, round string, n, t int, label string, trace interface{}) {
	prop := "C02"
	var ready []int
	for j, nd := range w.Nodes {
		if nd.RoundState(round) == string(sif.StateSigningIdle) {
			ready = append(ready, j)
		}
	}
	if len(ready) == 0 {
		return
	}
	suite := oracle.Suite()
	var polys [][][]byte
	var shares []*share.PriShare
	var pubPolys []*share.PubPoly
	for i := 0; i < n; i++ {
		krs, err := w.Airs[i].M.GetBLSKeyrings()
		kr := krs[round]
		if err != nil || kr == nil {
			r.Violation(prop+"/share-missing", fmt.Sprintf("%s: node(s) %v are signing-ready for round %q but machine %d holds no key share for it (%v)", label, ready, round, i, err), trace)
			return
		}
		cs, _ := oracle.PolyCommitBytes(kr.PubPoly)
		polys = append(polys, cs)
		shares = append(shares, kr.Share)
		pubPolys = append(pubPolys, kr.PubPoly)
	}
	P := polys[0]
	if len(P) != t {
		r.Violation(prop+"/wrong-degree", fmt.Sprintf("%s: round %q: the public polynomial the machines hold has %d coefficients, the round's threshold is %d", label, round, len(P), t), trace)
	}
	for i := 1; i < n; i++ {
		if fmt.Sprint(polys[i]) != fmt.Sprint(P) {
			r.Violation(prop+"/machines-disagree-on-polynomial", fmt.Sprintf("%s: round %q: machines 0 and %d hold different public polynomials", label, round, i), trace)
			return
		}
	}
	for i := 0; i < n; i++ {
		if !oracle.ShareOnPoly(pubPolys[0], shares[i]) {
			r.Violation(prop+"/share-not-on-polynomial", fmt.Sprintf("%s: round %q: machine %d's private share does not lie on the public polynomial", label, round, i), trace)
		}
	}
	groupKey := P[0]
	for _, j := range ready {
		dump := w.Nodes[j].Dump(round)
		if dump == nil || dump.Payload.DKGProposalPayload == nil {
			r.Violation(prop+"/dump-unreadable", fmt.Sprintf("%s: node %d, round %q", label, j, round), trace)
			continue
		}
		for pid, q := range dump.Payload.DKGProposalPayload.Quorum {
			if !bytes.Equal(q.DkgMasterKey, groupKey) {
				r.Violation(prop+"/announced-key-differs", fmt.Sprintf("%s: round %q: node %d is signing-ready although participant %d announced group key %x, the constant term of the polynomial the machines hold is %x", label, round, j, pid, q.DkgMasterKey, groupKey), trace)
				break
			}
		}
		kr, err := dkg.LoadPubPolyBLSKeyringFromBytes(suite, dump.Payload.DKGProposalPayload.PubPolyBz)
		if err != nil {
			r.Violation(prop+"/node-polynomial-unreadable", fmt.Sprintf("%s: round %q: node %d retains an undecodable polynomial: %v", label, round, j, err), trace)
			continue
		}
		cs, _ := oracle.PolyCommitBytes(kr.PubPoly)
		if fmt.Sprint(cs) != fmt.Sprint(P) {
			r.Violation(prop+"/node-retains-different-polynomial", fmt.Sprintf("%s: round %q: the polynomial node %d retains for reconstruction differs from the one the machines hold shares of", label, round, j), trace)
		}
	}
	msg := []byte("c02 probe message")
	var partials [][]byte
	for i := 0; i < n; i++ {
		sg, err := tbls.Sign(suite, shares[i], msg)
		if err != nil {
			r.Infra("tbls.Sign: %v", err)
		}
		partials = append(partials, sg)
	}
	for _, sub := range subsets(n, t) {
		var sigs [][]byte
		for _, i := range sub {
			sigs = append(sigs, partials[i])
		}
		full, err := tbls.Recover(suite, pubPolys[0], msg, sigs, t, n)
		if err != nil {
			r.Violation(prop+"/t-shares-do-not-combine", fmt.Sprintf("%s: round %q: shares %v do not combine: %v", label, round, sub, err), trace)
			continue
		}
		if err := oracle.VerifyETH(groupKey, msg, full); err != nil {
			r.Violation(prop+"/t-shares-give-invalid-signature", fmt.Sprintf("%s: round %q: shares %v give a signature the independent verifier rejects: %v", label, round, sub, err), trace)
		}
	}
	if t >= 2 {
		for _, sub := range subsets(n, t-1) {
			var sigs [][]byte
			for _, i := range sub {
				sigs = append(sigs, partials[i])
			}
			if _, err := tbls.Recover(suite, pubPolys[0], msg, sigs, t, n); err == nil {
				r.Violation(prop+"/fewer-than-t-shares-combine", fmt.Sprintf("%s: round %q: %d shares %v were combined with threshold %d", label, round, t-1, sub, t), trace)
			}
		}
	}
}

// c02TwoRounds returns the number of two-round histories judged.
func c02TwoRounds(r *kit.Run, tier string) int {
	relations := []struct {
		name string
		id   func(a string) string
	}{
		{"unrelated-id", nil},
		{"id-with-trailing-space", func(a string) string { return a + " " }},
		{"id-with-leading-space", func(a string) string { return " " + a }},
		{"id-in-upper-case", strings.ToUpper},
		{"id-with-tab-and-newline", func(a string) string { return "\t" + a + "\n" }},
	}
	orders := []string{"first-round-then-second", "second-round-then-first", "answers-interleaved"}
	n := 3
	type nt2 struct{ ta, tb int }
	pairs := []nt2{{3, 2}, {2, 3}}
	if tier == "thorough" {
		pairs = append(pairs, nt2{2, 2}, nt2{3, 3})
	}
	count := 0
	for _, rel := range relations {
		for _, order := range orders {
			for _, pr := range pairs {
				if r.TimeUp() {
					return count
				}
				label := fmt.Sprintf("two rounds on the same machines (%s, %s, thresholds %d and %d)", rel.name, order, pr.ta, pr.tb)
				trace := map[string]interface{}{"scenario": "two-rounds", "relation": rel.name, "order": order, "n": n, "t_first": pr.ta, "t_second": pr.tb}
				w, err := world.NewWorld(n)
				if err != nil {
					r.Infra("world: %v", err)
				}
				// round A through the API; round B as a proposal posted under the chosen id
				var roundA, roundB string
				openA := func() {
					id, err := w.StartDKG(pr.ta, 0)
					if err != nil {
						r.Infra("StartDKG: %v", err)
					}
					roundA = id
				}
				openB := func() {
					req := w.InitProposal(pr.tb, seqInts(n))
					req.CreatedAt = req.CreatedAt.Add(-1)
					payload := world.MustJSON(req)
					if rel.id == nil {
						roundB = world.RoundID(payload)
					} else {
						roundB = rel.id(roundA)
					}
					w.Board.Post(storage.Message{DkgRoundID: roundB, Event: string(spf.EventInitProposal), Data: payload, SenderAddr: w.Nodes[1].Name})
				}
				// answer the pending operations of one round only (of == "" : all)
				drive := func(of string) {
					for iter := 0; iter < 200; iter++ {
						if err := w.DrainAll(); err != nil {
							r.Infra("%s: %v", label, err)
						}
						cnt := 0
						for i := 0; i < n; i++ {
							for _, op := range w.Nodes[i].PendingOps() {
								if of != "" && op.DKGIdentifier != of {
									continue
								}
								if err := w.Operate(i, op.ID); err != nil {
									// a ceremony that fails is not what this part judges (C12 / C11 do); the
									// rounds that DO become signing-ready are
									r.Printf("note: %s: participant %d, %s of round %q: %v", label, i, op.Type, op.DKGIdentifier, err)
								}
								cnt++
							}
						}
						if cnt == 0 {
							return
						}
					}
				}
				switch order {
				case "first-round-then-second":
					openA()
					drive("")
					openB()
					drive("")
				case "second-round-then-first":
					openA()
					if err := w.DrainAll(); err != nil {
						r.Infra("%v", err)
					}
					openB()
					drive(roundB)
					drive("")
				case "answers-interleaved":
					openA()
					openB()
					drive("")
				}
				readyA := w.Nodes[0].RoundState(roundA) == string(sif.StateSigningIdle)
				readyB := w.Nodes[0].RoundState(roundB) == string(sif.StateSigningIdle)
				if !readyA {
					r.Infra("%s: the first round did not become signing-ready (%s)", label, w.Nodes[0].RoundState(roundA))
				}
				judgeRoundOnWorld(r, w, roundA, n, pr.ta, label+", first round", trace)
				judgeRoundOnWorld(r, w, roundB, n, pr.tb, label+", second round", trace)
				// the same after every machine was stopped and reopened (the key material comes from the database)
				reopened := true
				for i := range w.Airs {
					if err := w.Airs[i].Restart(); err != nil {
						reopened = false
						r.Printf("note: %s: machine %d cannot be reopened: %v", label, i, err)
					}
				}
				if reopened {
					judgeRoundOnWorld(r, w, roundA, n, pr.ta, label+", first round, machines reopened", trace)
					judgeRoundOnWorld(r, w, roundB, n, pr.tb, label+", second round, machines reopened", trace)
				}
				count++
				r.Add("two_round_histories_second_round_ready", b2i(readyB))
				w.Close()
				for _, a := range w.Airs {
					_ = os.RemoveAll(a.Dir)
				}
			}
		}
	}
	return count
}

// c02FailingWrites: one database write of one machine FAILS (the error is returned to the machine,
// nothing is written - a full disk) inside one of its key-generation operations; the operator feeds
// the operation again when the machine reports a fatal error. Whatever happens to the round: if
// any node becomes signing-ready, the statement must hold.
func c02FailingWrites(r *kit.Run, tier string) int {
	n, t := 3, 2
	count, fired, ready := 0, 0, 0
	for mi := 0; mi < n; mi++ {
		for step := 1; step <= 4; step++ {
			for k := 1; k <= 3; k++ {
				if r.TimeUp() {
					return count
				}
				label := fmt.Sprintf("database write %d of machine %d fails inside its key-generation operation %d", k, mi, step)
				trace := map[string]interface{}{"scenario": "failing-machine-write", "machine": mi, "operation": step, "write": k}
				w, err := world.NewWorld(n)
				if err != nil {
					r.Infra("world: %v", err)
				}
				armed, writes, did, steps := false, 0, false, 0
				path := w.Airs[mi].DBPath()
				world.RegisterDBHook(path, func(op, phase string, key []byte) {
					if !armed || phase != "pre" || op == "open" {
						return
					}
					writes++
					if writes == k && !did {
						did = true
						panic(vleveldb.InjectedFailure{Msg: "injected: no space left on device"})
					}
				})
				round, err := w.StartDKG(t, n-1)
				if err != nil {
					r.Infra("StartDKG: %v", err)
				}
				for iter := 0; iter < 200; iter++ {
					if err := w.DrainAll(); err != nil {
						r.Infra("%s: %v", label, err)
					}
					cnt := 0
					for i := 0; i < n; i++ {
						for _, op := range w.Nodes[i].PendingOps() {
							isDKGStep := string(op.Type) != string(spf.StateAwaitParticipantsConfirmations)
							if i == mi && isDKGStep {
								steps++
								armed, writes = steps == step, 0
							}
							err := w.Operate(i, op.ID)
							armed = false
							if err != nil {
								// a fatal error of the machine: the operator feeds the operation again
								_ = w.Operate(i, op.ID)
							}
							cnt++
						}
					}
					if cnt == 0 {
						break
					}
				}
				world.UnregisterDBHook(path)
				if did {
					fired++
				}
				for _, nd := range w.Nodes {
					if nd.RoundState(round) == string(sif.StateSigningIdle) {
						ready++
						break
					}
				}
				judgeRoundOnWorld(r, w, round, n, t, label, trace)
				count++
				w.Close()
				for _, a := range w.Airs {
					_ = os.RemoveAll(a.Dir)
				}
			}
		}
	}
	r.Set("failing_write_ceremonies", count)
	r.Set("failing_write_ceremonies_in_which_the_write_failed", fired)
	r.Set("failing_write_ceremonies_that_became_signing_ready", ready)
	return count
}
