package checks

import (
	"errors"
	"fmt"

	"github.com/lidofinance/dc4bc/client/types"
	"github.com/lidofinance/dc4bc/storage"

	"verif/mc/kit"
	"verif/mc/world"
	"verif/mc/worldx"
)

// DKGRun is one exploration of a key-generation ceremony on a fresh world: every order in which
// the operators answer their pending operations (eager polling, states merged on node stores),
// optionally with one participant deviating.
type DKGRun struct {
	N, T int
	// Deviate may return a mutation of the RESULT the operator of `node` submits for `op`
	// (nil = honest). It is called for every (state, node, op).
	Deviate func(node int, op *types.Operation) func(res *types.Operation)
	// OnMachinePanic is called when an airgapped machine panics while answering (instead of the
	// exploration failing); the branch is not continued.
	OnMachinePanic func(s *worldx.State, node int, op *types.Operation, p *world.MachinePanic)
	// OnRefusedResult is called when a node refuses to post the GENUINE answer of its machine
	// (instead of the exploration failing); the branch is not continued.
	OnRefusedResult func(s *worldx.State, node int, op *types.Operation, apiErr error)
	// Linear explores only the canonical order (node 0 first) instead of all orders.
	Linear bool
	// Adversary may return board messages that somebody (the deviating participant) posts in
	// state s besides the operators' answers; each returned group is posted as one further action.
	Adversary func(s *worldx.State) [][]storage.Message

	W     *world.World
	K     *worldx.Worker
	Round string
	Init  *worldx.State
}

func (d *DKGRun) Setup(r *kit.Run) {
	w, err := world.NewWorld(d.N)
	if err != nil {
		r.Infra("world: %v", err)
	}
	d.W = w
	ctx := worldx.NewCtx(d.N)
	ctx.EnableCanon()
	d.K = worldx.NewWorker(ctx, w)
	round, err := w.StartDKG(d.T, d.N-1)
	if err != nil {
		r.Infra("StartDKG: %v", err)
	}
	d.Round = round
	s := d.K.Capture()
	s.KeyNoLog = true
	s, err = d.K.DrainEager(s, nil)
	if err != nil {
		r.Infra("drain: %v", err)
	}
	d.Init = s
}

func (d *DKGRun) Close() { d.W.Close() }

// Explore runs the BFS; check is called on every state, terminal on every state without
// pending operations.
func (d *DKGRun) Explore(r *kit.Run, check func(s *worldx.State), terminal func(s *worldx.State)) *worldx.Result {
	m := worldx.Model{
		Stop: r.TimeUp,
		Check: func(k *worldx.Worker, s *worldx.State) error {
			if check != nil {
				check(s)
			}
			return nil
		},
		Next: func(k *worldx.Worker, s *worldx.State) ([]*worldx.State, error) {
			var out []*worldx.State
			for i := 0; i < d.N; i++ {
				for _, op := range k.Pending(s, i) {
					var mutate func(*types.Operation)
					if d.Deviate != nil {
						mutate = d.Deviate(i, op)
					}
					c, apiErr, err := k.OperateOp(s, i, op.ID, mutate)
					if err != nil {
						var mp *world.MachinePanic
						if errors.As(err, &mp) && d.OnMachinePanic != nil {
							d.OnMachinePanic(s, i, op, mp)
							continue
						}
						return nil, err
					}
					if apiErr != nil && mutate == nil && d.OnRefusedResult != nil {
						d.OnRefusedResult(s, i, op, apiErr)
						continue
					}
					if apiErr != nil && mutate == nil {
						return nil, fmt.Errorf("node %d refused the genuine result of %s: %v", i, op.Type, apiErr)
					}
					c, err = k.DrainEager(c, nil)
					if err != nil {
						return nil, err
					}
					out = append(out, c)
					if d.Linear {
						return out, nil
					}
				}
			}
			if d.Adversary != nil && !(d.Linear && len(out) > 0) {
				for _, group := range d.Adversary(s) {
					c := s
					for gi, m := range group {
						c = k.PostMsg(c, m, fmt.Sprintf("adversary posts %s (%d/%d)", m.Event, gi+1, len(group)))
					}
					c, err := k.DrainEager(c, nil)
					if err != nil {
						return nil, err
					}
					out = append(out, c)
				}
			}
			return out, nil
		},
	}
	res, err := worldx.BFS([]*worldx.Worker{d.K}, d.Init, m, true)
	if err != nil {
		r.Infra("DKG exploration n=%d t=%d: %v", d.N, d.T, err)
	}
	if terminal != nil {
		for _, t := range res.Terminals {
			terminal(t)
		}
	}
	return res
}
