package checks

import (
	"bytes"
	"fmt"
	"os"

	"github.com/lidofinance/dc4bc/fsm/types/requests"

	"verif/mc/world"
	"verif/mc/worldx"
)

func init() { Registry["C01"] = c01 }

// batchAlphabet: payload shapes named in DESIGN §4 C01.
func batchAlphabet(prefix string) []Batch {
	root := bytes.Repeat([]byte{0xAB}, 32)
	long := bytes.Repeat([]byte("0123456789"), 30)
	// (the batch with the LAST baked position comes before the one with low positions, so that
	// an expansion that depends on what was expanded before is exercised)
	return []Batch{
		{ID: prefix + "-one", Tasks: world.SimpleTasks(prefix+"a", []byte{0x01})},
		{ID: prefix + "-mixed", Tasks: world.SimpleTasks(prefix+"b", []byte{0x00, 0x00, 0x00}, root, long)},
		{ID: prefix + "-dup", Tasks: world.SimpleTasks(prefix+"c", []byte("same"), []byte("same"))},
		{ID: prefix + "-bakedmix", Tasks: append(world.SimpleTasks(prefix+"d", []byte{0xff, 0xfe}), requests.SigningTask{MessageID: prefix + "-r2", RangeStart: 18631, RangeEnd: 18632})},
		{ID: prefix + "-baked", Tasks: []requests.SigningTask{{MessageID: prefix + "-range", RangeStart: 3, RangeEnd: 5}}},
	}
}

type ntPair struct{ n, t int }

func allNT(minN, maxN int) []ntPair {
	var out []ntPair
	for n := minN; n <= maxN; n++ {
		for t := 2; t <= n; t++ {
			out = append(out, ntPair{n, t})
		}
	}
	return out
}

func c01(tier string, args []string) int {
	r := newRun("C01", tier, "model_checking")
	maxN := 4
	if tier == "thorough" {
		maxN = 6
	}
	r.Assume = []string{
		"cryptographic soundness of kyber (signer) and blst (independent verifier)",
		"scrypt cost lowered through the exported airgapped.N (same code path)",
		"bounds: n<=" + fmt.Sprint(maxN) + ", batch alphabet of 5 shapes, one or two batches per exploration",
	}
	totalStates, totalTrans, totalTerm := 0, 0, 0
	var configs []string
	cfgs := allNT(2, maxN)
	if tier != "thorough" {
		// minority and majority thresholds for n=5 with one batch shape
		cfgs = append(cfgs, ntPair{5, 2}, ntPair{5, 4})
	}
	if os.Getenv("VERIF_PART") == "two-rounds" { // development aid: only the two-round part
		cfgs = nil
	}
	for _, nt := range cfgs {
		if r.TimeUp() {
			break
		}
		workers := worldx.NumWorkers()
		if nt.n >= 5 {
			workers = 8
		}
		sw := SetupSignWorld(r, nt.n, nt.t, workers)
		// every batch shape on its own, every order of answers (eager polling): the t-th
		// answer triggers reconstruction on every node, the others arrive when idle
		for bi, b := range batchAlphabet(fmt.Sprintf("n%dt%d", nt.n, nt.t)) {
			if nt.n >= 5 && (bi > 1 || (tier != "thorough" && bi > 0)) {
				break // larger n: fewer shapes (cost grows with n!/(n-t)!)
			}
			cfg := SignCfg{N: nt.n, T: nt.t, Batches: []Batch{b}, Proposers: []int{0, nt.n - 1}}
			o := newSigOracle(r, "C01", sw.GroupKey, sw.Round, cfg.Batches)
			m := sw.Model(cfg, func(k *worldx.Worker, s *worldx.State) error { o.CheckState(k, s); return nil }, r.TimeUp)
			res, err := worldx.BFS(sw.Workers, sw.Init, m, false)
			if err != nil {
				r.Infra("exploration %s: %v", cfg, err)
			}
			totalStates += res.States
			totalTrans += res.Transitions
			totalTerm += res.Terminal
			r.Add("signature_records_checked", o.Checked)
			r.Add("independent_verifications", o.Verifs)
			r.Add("distinct_message_signatures", len(o.first))
			configs = append(configs, fmt.Sprintf("%s: states=%d transitions=%d terminal=%d", cfg, res.States, res.Transitions, res.Terminal))
			if res.Stopped || res.Capped {
				r.Cap("exploration " + cfg.String() + " stopped early")
			}
			if bi == 0 {
				r.Sample(map[string]interface{}{"config": cfg.String(), "states": res.States, "transitions": res.Transitions})
			}
		}
		// a Byzantine participant that delivers valid shares for only the first message of a
		// multi-message batch: whatever the nodes do with it, no invalid signature may appear
		if nt.n >= 3 && nt.n <= 4 {
			for b := 0; b < nt.n; b++ {
				cfg := SignCfg{N: nt.n, T: nt.t, Batches: []Batch{batchAlphabet(fmt.Sprintf("z%d", b))[1]}, Proposers: []int{0}, Truncating: []int{b}}
				o := newSigOracle(r, "C01", sw.GroupKey, sw.Round, cfg.Batches)
				m := sw.Model(cfg, func(k *worldx.Worker, s *worldx.State) error { o.CheckState(k, s); return nil }, r.TimeUp)
				res, err := worldx.BFS(sw.Workers, sw.Init, m, false)
				if err != nil {
					r.Infra("exploration %s: %v", cfg, err)
				}
				totalStates += res.States
				totalTrans += res.Transitions
				totalTerm += res.Terminal
				r.Add("signature_records_checked", o.Checked)
				configs = append(configs, fmt.Sprintf("%s: states=%d transitions=%d terminal=%d", cfg, res.States, res.Transitions, res.Terminal))
			}
		}
		// somebody who is not a participant posts reconstruction broadcasts with made-up values
		// for the batch (under a name nobody registered, and under a participant's name without
		// that participant's signature): no node may store or re-broadcast them
		if nt.n <= 3 {
			cfg := SignCfg{N: nt.n, T: nt.t, Batches: []Batch{batchAlphabet(fmt.Sprintf("o%dt%d", nt.n, nt.t))[1]}, Proposers: []int{0}, Outsider: true}
			o := newSigOracle(r, "C01", sw.GroupKey, sw.Round, cfg.Batches)
			m := sw.Model(cfg, func(k *worldx.Worker, s *worldx.State) error { o.CheckState(k, s); return nil }, r.TimeUp)
			res, err := worldx.BFS(sw.Workers, sw.Init, m, false)
			if err != nil {
				r.Infra("exploration %s: %v", cfg, err)
			}
			totalStates += res.States
			totalTrans += res.Transitions
			totalTerm += res.Terminal
			r.Add("signature_records_checked", o.Checked)
			configs = append(configs, fmt.Sprintf("%s: states=%d transitions=%d terminal=%d", cfg, res.States, res.Transitions, res.Terminal))
		}
		// interleavings of polls: every single lagging node (and all nodes lagging for n=2),
		// two batches, so that reconstruction broadcasts, late answers and the next proposal
		// interleave in every order
		if nt.n <= 3 {
			two := []Batch{batchAlphabet("x")[0], batchAlphabet("y")[2]}
			var lagSets [][]int
			for j := 0; j < nt.n; j++ {
				lagSets = append(lagSets, []int{j})
			}
			if nt.n == 2 {
				lagSets = append(lagSets, []int{0, 1})
			}
			if tier == "thorough" && nt.n == 3 {
				lagSets = append(lagSets, []int{0, 1}, []int{1, 2})
			}
			maxStates := 400000
			if tier == "thorough" {
				maxStates = 2000000
			}
			for _, lag := range lagSets {
				cfg := SignCfg{N: nt.n, T: nt.t, Batches: two, Proposers: []int{0}, Lag: lag, MaxStates: maxStates}
				o := newSigOracle(r, "C01", sw.GroupKey, sw.Round, cfg.Batches)
				m := sw.Model(cfg, func(k *worldx.Worker, s *worldx.State) error { o.CheckState(k, s); return nil }, r.TimeUp)
				res, err := worldx.BFS(sw.Workers, sw.Init, m, false)
				if err != nil {
					r.Infra("exploration %s: %v", cfg, err)
				}
				totalStates += res.States
				totalTrans += res.Transitions
				totalTerm += res.Terminal
				r.Add("signature_records_checked", o.Checked)
				r.Add("independent_verifications", o.Verifs)
				configs = append(configs, fmt.Sprintf("%s: states=%d transitions=%d terminal=%d", cfg, res.States, res.Transitions, res.Terminal))
				if res.Stopped || res.Capped {
					r.Cap("exploration " + cfg.String() + " stopped early")
				}
				r.Sample(map[string]interface{}{"config": cfg.String(), "states": res.States, "transitions": res.Transitions})
			}
		}
		r.Add("real_poll_ticks", int(sw.Ctx.RealPolls))
		r.Add("cached_poll_ticks", int(sw.Ctx.CachedPolls))
		r.Add("airgapped_executions", int(sw.Ctx.RealAnswers))
		sw.Close()
	}
	// two rounds with different participant sets on the same nodes sign the same payload (c01b.go)
	r.Set("two_round_histories", c01TwoRounds(r))
	r.Set("states", totalStates)
	r.Set("transitions", totalTrans)
	r.Set("traces_validated_against_impl", totalTerm)
	r.Set("explorations", configs)
	r.Set("rule", "explicit-state BFS over world states (board log, node stores); every transition executes the real Poll loop / airgapped signer / node API; every broadcast and stored signature is judged by prysm/blst against the reference expansion of the proposal and compared byte-wise across nodes, subsets and arrival orders; terminal states = complete traces, all executed on the implementation")
	return finish(r)
}
