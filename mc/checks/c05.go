package checks

import (
	"encoding/json"
	"fmt"
	"sort"
	"sync"

	"github.com/lidofinance/dc4bc/client/types"
	"github.com/lidofinance/dc4bc/fsm/fsm"
	"github.com/lidofinance/dc4bc/fsm/state_machines"
	dpf "github.com/lidofinance/dc4bc/fsm/state_machines/dkg_proposal_fsm"
	spf "github.com/lidofinance/dc4bc/fsm/state_machines/signature_proposal_fsm"
	sif "github.com/lidofinance/dc4bc/fsm/state_machines/signing_proposal_fsm"
	"github.com/lidofinance/dc4bc/fsm/types/requests"

	"verif/mc/kit"
	"verif/mc/world"
	"verif/mc/xsearch"
)

func init() { Registry["C05"] = c05 }

// mon05 holds the history variables of the C05 monitors (part of the state key).
type mon05 struct {
	Deliv   [5][]uint8 // effective deliveries per phase and participant (saturating at 2)
	Fail    [5][]bool  // effective failure reports
	Tainted bool       // a decline / error / late contribution / second differing key took effect
	Keys    []string   // distinct group keys that took effect in the key phase
}

func newMon05(n int) *mon05 {
	m := &mon05{}
	for i := range m.Deliv {
		m.Deliv[i] = make([]uint8, n)
		m.Fail[i] = make([]bool, n)
	}
	return m
}

func (m *mon05) clone() *mon05 {
	c := &mon05{Tainted: m.Tainted, Keys: append([]string(nil), m.Keys...)}
	for i := range m.Deliv {
		c.Deliv[i] = append([]uint8(nil), m.Deliv[i]...)
		c.Fail[i] = append([]bool(nil), m.Fail[i]...)
	}
	return c
}

func (m *mon05) key() string { b, _ := json.Marshal(m); return string(b) }

type st05 struct {
	Snap string
	Mon  *mon05
}

// snapStore interns snapshots shared by the workers of one search.
type snapStore struct {
	mu sync.Mutex
	m  map[string]world.Snapshot
}

func newSnapStore() *snapStore { return &snapStore{m: map[string]world.Snapshot{}} }
func (s *snapStore) put(sn world.Snapshot) string {
	h := sn.Hash()
	s.mu.Lock()
	if _, ok := s.m[h]; !ok {
		s.m[h] = sn
	}
	s.mu.Unlock()
	return h
}
func (s *snapStore) get(h string) world.Snapshot {
	s.mu.Lock()
	defer s.mu.Unlock()
	return s.m[h]
}

func c05(tier string, args []string) int {
	r := newRun("C05", tier, "model_checking")
	cfgs := allNT(2, 4)
	if tier == "thorough" {
		cfgs = allNT(2, 5)
	}
	r.Assume = []string{
		"contributions are opaque to the round FSMs, so fake payloads stand for commitments/deals/responses",
		"single-node view (participant 0); timestamps from the alphabet {in time, 8 days late}",
	}
	totS, totT := 0, 0
	var per []string
	for _, nt := range cfgs {
		if r.TimeUp() {
			break
		}
		s, t, phases := explore05(r, nt.n, nt.t, 0)
		totS += s
		totT += t
		per = append(per, fmt.Sprintf("n=%d t=%d (view of participant 0): states=%d transitions=%d states_per_phase=%v", nt.n, nt.t, s, t, phases))
		if nt.n == 3 || tier == "thorough" {
			// the same search on the last participant's node
			s, t, _ := explore05(r, nt.n, nt.t, nt.n-1)
			totS += s
			totT += t
			per = append(per, fmt.Sprintf("n=%d t=%d (view of participant %d): states=%d transitions=%d", nt.n, nt.t, nt.n-1, s, t))
		}
	}
	r.Set("states", totS)
	r.Set("transitions", totT)
	r.Set("traces_validated_against_impl", totT)
	r.Set("explorations", per)
	r.Set("rule", "BFS to a fixpoint over (node state store, history variables); every transition is NodeService.ProcessMessage on the real node with one message of the public-event alphabet (every event x participant id in {0..n-1,n,-1} x {valid, empty, late, second key} + hand-over events and the opening proposal posted again); monitors I1 (unanimous in-order advance), I2 (cancelled is absorbing, tainted never signing-ready), I3 (rejected or unacceptable => byte-identical store)")
	return finish(r)
}

func explore05(r *kit.Run, n, t, view int) (states, transitions int, phases map[string]int) {
	workers := 16
	labs := make([]*Lab, workers)
	alph := make([][]Input, workers)
	for i := range labs {
		l, err := NewLab(n, t, view)
		if err != nil {
			r.Infra("lab: %v", err)
		}
		labs[i] = l
		alph[i] = l.DKGAlphabet()
	}
	store := newSnapStore()
	// initial state: the opening proposal was processed
	err, after, _ := labs[0].Step(labs[0].Node.Mem.Snapshot(), labs[0].Init)
	if err != nil {
		r.Infra("the opening proposal was rejected: %v", err)
	}
	init := &xsearch.St{Data: &st05{Snap: store.put(after), Mon: newMon05(n)}}
	init.Key = init.Data.(*st05).Snap + init.Data.(*st05).Mon.key()
	round := labs[0].Round
	var mu sync.Mutex
	phases = map[string]int{}
	classes := map[string]int{}
	sampled := 0

	// the same alphabet at the round FSM's own interface (the node is one caller of it; it loads
	// the round from its dump for every message): used on every cancelled round reached
	var fsmAlph []fsmInput
	if req, err := types.FSMRequestFromMessage(labs[0].Init); err == nil {
		fsmAlph = append(fsmAlph, fsmInput{"event_sig_proposal_init", spf.EventInitProposal, req})
	}
	for _, in := range alph[0] {
		if req, err := types.FSMRequestFromMessage(in.Msg); err == nil {
			fsmAlph = append(fsmAlph, fsmInput{in.Label, in.Event, req})
		}
	}
	fsmAlph = append(fsmAlph,
		fsmInput{"event_dkg_init_process", dpf.EventDKGInitProcess, requests.DefaultRequest{CreatedAt: world.T0}},
		fsmInput{"event_signing_init", sif.EventSigningInit, requests.DefaultRequest{CreatedAt: world.T0}},
		fsmInput{"event_signing_restart", sif.EventSigningRestart, requests.DefaultRequest{CreatedAt: world.T0}},
	)
	var fsmSeen sync.Map
	fsmLevel := 0
	cancelledAtFSM := func(raw []byte, stB fsm.State, trace func() interface{}) {
		if _, dup := fsmSeen.LoadOrStore(string(raw), true); dup {
			return
		}
		for _, in := range fsmAlph {
			var resp *fsm.Response
			var dump []byte
			var err error
			func() {
				defer func() {
					if rec := recover(); rec != nil {
						err = fmt.Errorf("PANIC %v", rec)
					}
				}()
				inst, ferr := state_machines.FromDump(raw)
				if ferr != nil {
					err = ferr
					return
				}
				resp, dump, err = inst.Do(in.Event, in.Req)
			}()
			mu.Lock()
			fsmLevel++
			mu.Unlock()
			if err != nil {
				continue
			}
			var after state_machines.FSMDump
			_ = json.Unmarshal(dump, &after)
			if !cancelledStates[after.State] || (resp != nil && !cancelledStates[resp.State]) {
				r.Violation("C05/left-cancelled-state/fsm-interface/"+string(in.Event), fmt.Sprintf("the cancelled round (%s), loaded from its dump, accepts %s and goes to %s", stB, in.Label, after.State), append(trace().([]string), in.Label))
			}
		}
	}

	next := func(w int, s *xsearch.St) ([]*xsearch.St, error) {
		lab := labs[w]
		cur := s.Data.(*st05)
		snap := store.get(cur.Snap)
		dB := snap.Dump(round)
		if dB == nil {
			return nil, fmt.Errorf("round disappeared (trace %v)", s.Trace())
		}
		stB := dB.State
		pB, okB := phaseOfState[stB]
		cancB := cancelledStates[stB]
		if cancB {
			cancelledAtFSM(snap.Rounds()[round], stB, func() interface{} { return s.Trace() })
		}
		mu.Lock()
		phases[string(stB)]++
		mu.Unlock()
		var out []*xsearch.St
		for _, in := range alph[w] {
			if okB && pB == 5 && in.Phase == -1 && in.Event != "event_unknown_to_everyone" && in.Variant == "probe" {
				continue // signing events in the signing-ready state belong to C06
			}
			err, after, _ := lab.Step(snap, in.Msg)
			changed := !after.Equal(snap)
			trace := func() interface{} { return append(s.Trace(), in.Label) }
			cls := fmt.Sprintf("%s|%s|err=%v|changed=%v", stB, in.Event, err != nil, changed)
			mu.Lock()
			classes[cls]++
			mu.Unlock()
			if err != nil && changed {
				r.Violation("C05/rejected-but-changed/"+string(in.Event), fmt.Sprintf("in %s the event %s was rejected (%v) but the state store changed: keys %v", stB, in.Label, err, after.DiffKeys(snap)), trace())
			}
			if !changed {
				// "a decline, a reported error ... puts the round into a cancelled state": a failure
				// report of the current phase from a participant that is still awaited must not be
				// without effect (whatever its time stamp says)
				if in.Fail && okB && pB <= 4 && !cancB && in.Phase == pB && in.PID >= 0 && in.PID < n &&
					cur.Mon.Deliv[pB][in.PID] == 0 && !cur.Mon.Fail[pB][in.PID] {
					r.Violation("C05/failure-report-without-effect/"+string(in.Event)+"/"+in.Variant, fmt.Sprintf("in %s (deliveries %v) the failure report %s of a participant that is still awaited was without effect (error: %v): the round goes on", stB, cur.Mon.Deliv, in.Label, err), trace())
				}
				out = append(out, &xsearch.St{Key: s.Key, Data: cur, Via: in.Label})
				continue
			}
			acceptable := okB && pB <= 4 && !cancB && in.Phase == pB && in.PID >= 0 && in.PID < n &&
				cur.Mon.Deliv[pB][in.PID] == 0 && !cur.Mon.Fail[pB][in.PID] && in.Variant != "empty"
			dontCare := false
			if in.Fail && in.Phase >= 1 && in.Phase <= 4 && cancB && in.PID >= 0 && in.PID < n {
				// (a) a further failure report inside that phase's own cancelled-by-error state
				if errState, ok := errorStateOfPhase[in.Phase]; ok && errState == stB {
					dontCare = true
				}
			}
			if in.Variant == "late" && okB && !cancB && in.Phase == pB && in.PID >= 0 && in.PID < n {
				// (b) a late-stamped contribution of the current phase is evidence of an expired
				// deadline: it may be accepted or refused, what matters (checked below) is that
				// an effect can only be "cancelled by timeout" — also for a participant that had
				// already delivered
				dontCare = true
			}
			if !acceptable && !dontCare {
				r.Violation("C05/unacceptable-event-had-effect/"+string(in.Event)+"/"+in.Variant, fmt.Sprintf("in %s (deliveries %v) the event %s is not acceptable but changed the state store (keys %v)", stB, cur.Mon.Deliv, in.Label, after.DiffKeys(snap)), trace())
			}
			mon := cur.Mon.clone()
			if in.Phase >= 0 && in.Phase <= 4 && in.PID >= 0 && in.PID < n {
				if in.Fail {
					mon.Fail[in.Phase][in.PID] = true
					mon.Tainted = true
				} else {
					if mon.Deliv[in.Phase][in.PID] < 2 {
						mon.Deliv[in.Phase][in.PID]++
					}
					if in.Variant == "late" {
						mon.Tainted = true
					}
					if in.Phase == 4 {
						k := "A"
						if in.Variant == "keyB" || in.Variant == "keyB-polyA" {
							k = "B"
						}
						found := false
						for _, x := range mon.Keys {
							if x == k {
								found = true
							}
						}
						if !found {
							mon.Keys = append(mon.Keys, k)
							sort.Strings(mon.Keys)
						}
						if len(mon.Keys) > 1 {
							mon.Tainted = true
						}
					}
				}
			}
			dA := after.Dump(round)
			if dA == nil {
				r.Violation("C05/round-unreadable", fmt.Sprintf("after %s the round's dump is gone or unreadable", in.Label), trace())
				continue
			}
			stA := dA.State
			pA, okA := phaseOfState[stA]
			cancA := cancelledStates[stA]
			if !okA && !cancA {
				r.Violation("C05/unknown-state", fmt.Sprintf("round persisted in state %q which is neither a phase nor a cancelled state", stA), trace())
			}
			if cancB && !cancA {
				r.Violation("C05/left-cancelled-state", fmt.Sprintf("round left the cancelled state %s for %s on %s", stB, stA, in.Label), trace())
			}
			if mon.Tainted && !cancA {
				r.Violation("C05/tainted-round-not-cancelled/"+string(in.Event)+"/"+in.Variant, fmt.Sprintf("after a decline/error/late contribution/second key (%s) the round is in %s, not in a cancelled state", in.Label, stA), trace())
			}
			if okA && okB && pA != pB {
				unanimous := pA == pB+1 && pB <= 4
				if unanimous {
					for p := 0; p < n; p++ {
						if mon.Deliv[pB][p] != 1 || mon.Fail[pB][p] {
							unanimous = false
						}
					}
				}
				if !unanimous || mon.Tainted {
					r.Violation("C05/advance-without-unanimity", fmt.Sprintf("round moved from %s to %s on %s with deliveries %v failures %v", stB, stA, in.Label, mon.Deliv[min(pB, 4)], mon.Fail[min(pB, 4)]), trace())
				}
			}
			c := &st05{Snap: store.put(after), Mon: mon}
			out = append(out, &xsearch.St{Key: c.Snap + mon.key(), Data: c, Via: in.Label})
			if stA == sif.StateSigningIdle {
				mu.Lock()
				if sampled < 2 {
					sampled++
					r.Sample(map[string]interface{}{"n": n, "t": t, "trace_to_signing_ready": append(s.Trace(), in.Label)})
				}
				mu.Unlock()
			}
		}
		return out, nil
	}
	res, err := xsearch.BFS(init, xsearch.Opts{Workers: workers, Stop: r.TimeUp}, next)
	if err != nil {
		r.Infra("exploration n=%d t=%d: %v", n, t, err)
	}
	if res.Stopped || res.Capped {
		r.Cap(fmt.Sprintf("n=%d t=%d stopped early", n, t))
	} else if phases[string(sif.StateSigningIdle)] == 0 {
		r.Infra("n=%d t=%d: the signing-ready state was never reached — the exploration is vacuous (honest ceremonies do not complete on this tree)", n, t)
	}
	r.Add("distinct_state_event_outcome_classes", len(classes))
	for _, l := range labs {
		l.Node.Stop()
	}
	r.Add("cancelled_rounds_fed_at_the_fsm_interface", fsmLevel)
	return res.States, res.Transitions, phases
}

var errorStateOfPhase = map[int]fsm.State{
	1: "state_dkg_commits_await_canceled_by_error",
	2: "state_dkg_deals_await_canceled_by_error",
	3: "state_dkg_responses_await_canceled_by_error",
	4: "state_dkg_master_key_await_canceled_by_error",
}

func min(a, b int) int {
	if a < b {
		return a
	}
	return b
}
