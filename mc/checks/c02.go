package checks

import (
	"bytes"
	"encoding/json"
	"fmt"
	"os"

	"github.com/corestario/kyber/share"
	"github.com/corestario/kyber/sign/tbls"

	"github.com/lidofinance/dc4bc/client/types"
	"github.com/lidofinance/dc4bc/dkg"
	"github.com/lidofinance/dc4bc/fsm/fsm"
	dpf "github.com/lidofinance/dc4bc/fsm/state_machines/dkg_proposal_fsm"
	sif "github.com/lidofinance/dc4bc/fsm/state_machines/signing_proposal_fsm"
	"github.com/lidofinance/dc4bc/fsm/types/requests"

	"verif/mc/kit"
	"verif/mc/oracle"
	"verif/mc/worldx"
)

func init() { Registry["C02"] = c02 }

// subsets of size k of 0..n-1
func subsets(n, k int) [][]int {
	var out [][]int
	var rec func(start int, cur []int)
	rec = func(start int, cur []int) {
		if len(cur) == k {
			out = append(out, append([]int(nil), cur...))
			return
		}
		for i := start; i < n; i++ {
			rec(i+1, append(cur, i))
		}
	}
	rec(0, nil)
	return out
}

// keyMaterialOracle checks the C02 statement in a state where some node is signing-ready.
// It returns true if it ran (some node signing-ready).
func keyMaterialOracle(r *kit.Run, prop string, d *DKGRun, s *worldx.State, label string) bool {
	k := d.K
	ready := []int{}
	for j := range s.Snap {
		if k.C.Snapshot(s.Snap[j]).RoundState(d.Round) == string(sif.StateSigningIdle) {
			ready = append(ready, j)
		}
	}
	if len(ready) == 0 {
		return false
	}
	trace := func() interface{} {
		return map[string]interface{}{"n": d.N, "t": d.T, "scenario": label, "trace": s.Trace()}
	}
	suite := oracle.Suite()
	var polys [][][]byte
	var shares []*share.PriShare
	var pubPolys []*share.PubPoly
	for i := 0; i < d.N; i++ {
		a, err := k.MachineAt(s, i)
		if err != nil {
			r.Infra("machine %d: %v", i, err)
		}
		krs, err := a.M.GetBLSKeyrings()
		kr := krs[d.Round]
		if err != nil || kr == nil {
			r.Violation(prop+"/share-missing", fmt.Sprintf("%s: node(s) %v are signing-ready but machine %d holds no key share for the round (%v)", label, ready, i, err), trace())
			return true
		}
		cs, _ := oracle.PolyCommitBytes(kr.PubPoly)
		polys = append(polys, cs)
		shares = append(shares, kr.Share)
		pubPolys = append(pubPolys, kr.PubPoly)
	}
	P := polys[0]
	if len(P) != d.T {
		r.Violation(prop+"/wrong-degree", fmt.Sprintf("%s: the public polynomial has %d coefficients, threshold is %d", label, len(P), d.T), trace())
	}
	for i := 1; i < d.N; i++ {
		if fmt.Sprint(polys[i]) != fmt.Sprint(P) {
			r.Violation(prop+"/machines-disagree-on-polynomial", fmt.Sprintf("%s: machines 0 and %d hold different public polynomials", label, i), trace())
			return true
		}
	}
	for i := 0; i < d.N; i++ {
		if !oracle.ShareOnPoly(pubPolys[0], shares[i]) {
			r.Violation(prop+"/share-not-on-polynomial", fmt.Sprintf("%s: machine %d's private share (index %d) does not lie on the public polynomial", label, i, shares[i].I), trace())
		}
	}
	groupKey := P[0]
	for _, j := range ready {
		dump := k.C.Snapshot(s.Snap[j]).Dump(d.Round)
		if dump == nil || dump.Payload.DKGProposalPayload == nil {
			r.Violation(prop+"/dump-unreadable", fmt.Sprintf("%s: node %d", label, j), trace())
			continue
		}
		for pid, q := range dump.Payload.DKGProposalPayload.Quorum {
			if !bytes.Equal(q.DkgMasterKey, groupKey) {
				r.Violation(prop+"/announced-key-differs", fmt.Sprintf("%s: node %d is signing-ready although participant %d announced group key %x, the polynomial's constant term is %x", label, j, pid, q.DkgMasterKey, groupKey), trace())
			}
		}
		kr, err := dkg.LoadPubPolyBLSKeyringFromBytes(suite, dump.Payload.DKGProposalPayload.PubPolyBz)
		if err != nil {
			r.Violation(prop+"/node-polynomial-unreadable", fmt.Sprintf("%s: node %d retains an undecodable polynomial: %v", label, j, err), trace())
			continue
		}
		cs, _ := oracle.PolyCommitBytes(kr.PubPoly)
		if fmt.Sprint(cs) != fmt.Sprint(P) {
			r.Violation(prop+"/node-retains-different-polynomial", fmt.Sprintf("%s: the polynomial node %d retains for reconstruction differs from the one the machines hold shares of", label, j), trace())
		}
	}
	// any t shares sign consistently, t-1 cannot
	msg := []byte("c02 probe message")
	var partials [][]byte
	for i := 0; i < d.N; i++ {
		sg, err := tbls.Sign(suite, shares[i], msg)
		if err != nil {
			r.Infra("tbls.Sign: %v", err)
		}
		partials = append(partials, sg)
	}
	var first []byte
	for _, sub := range subsets(d.N, d.T) {
		var sigs [][]byte
		for _, i := range sub {
			sigs = append(sigs, partials[i])
		}
		full, err := tbls.Recover(suite, pubPolys[0], msg, sigs, d.T, d.N)
		if err != nil {
			r.Violation(prop+"/t-shares-do-not-combine", fmt.Sprintf("%s: shares %v do not combine: %v", label, sub, err), trace())
			continue
		}
		if err := oracle.VerifyETH(groupKey, msg, full); err != nil {
			r.Violation(prop+"/t-shares-give-invalid-signature", fmt.Sprintf("%s: shares %v give a signature the independent verifier rejects: %v", label, sub, err), trace())
		}
		if first == nil {
			first = full
		} else if !bytes.Equal(first, full) {
			r.Violation(prop+"/subsets-give-different-signatures", fmt.Sprintf("%s: subset %v gives a different signature", label, sub), trace())
		}
	}
	if d.T >= 2 {
		for _, sub := range subsets(d.N, d.T-1) {
			var sigs [][]byte
			for _, i := range sub {
				sigs = append(sigs, partials[i])
			}
			if _, err := tbls.Recover(suite, pubPolys[0], msg, sigs, d.T, d.N); err == nil {
				r.Violation(prop+"/fewer-than-t-shares-combine", fmt.Sprintf("%s: %d shares %v were combined with threshold %d", label, d.T-1, sub, d.T), trace())
			}
			if d.T-1 >= 1 {
				forced, err := tbls.Recover(suite, pubPolys[0], msg, sigs, d.T-1, d.N)
				if err == nil && oracle.VerifyETH(groupKey, msg, forced) == nil {
					r.Violation(prop+"/fewer-than-t-shares-sign", fmt.Sprintf("%s: %d shares %v forced through give a VALID signature", label, d.T-1, sub), trace())
				}
			}
		}
	}
	return true
}

// polyDeviation builds the deviator's mutation of its master-key announcement.
func polyDeviation(deviator int, kind string) func(node int, op *types.Operation) func(res *types.Operation) {
	return func(node int, op *types.Operation) func(res *types.Operation) {
		if node != deviator || fsm.State(op.Type) != dpf.StateDkgMasterKeyAwaitConfirmations {
			return nil
		}
		return func(res *types.Operation) {
			for i := range res.ResultMsgs {
				var req requests.DKGProposalMasterKeyConfirmationRequest
				if json.Unmarshal(res.ResultMsgs[i].Data, &req) != nil {
					continue
				}
				if kind == "same-key-no-polynomial" {
					// what a node of the 0.1.4 generation announces: the key alone
					req.PubPolyBz = nil
					res.ResultMsgs[i].Data, _ = json.Marshal(req)
					continue
				}
				if kind == "same-key-empty-polynomial" {
					// the member is there but empty ("PubPolyBz":""), where the 0.1.4 form has none
					req.PubPolyBz = []byte{}
					res.ResultMsgs[i].Data, _ = json.Marshal(req)
					continue
				}
				suite := oracle.Suite()
				kr, err := dkg.LoadPubPolyBLSKeyringFromBytes(suite, req.PubPolyBz)
				if err != nil {
					continue
				}
				_, cs := kr.PubPoly.Info()
				// another polynomial: add the base point to the last coefficient (and, for
				// "other-key", to the constant term as well)
				g := suite.G1().Point().Base()
				cs2 := append(cs[:0:0], cs...)
				cs2[len(cs2)-1] = suite.G1().Point().Add(cs2[len(cs2)-1], g)
				if kind == "other-key" || kind == "other-key-same-polynomial" {
					cs2[0] = suite.G1().Point().Add(cs2[0], g)
					req.MasterKey, _ = cs2[0].MarshalBinary()
				}
				if kind != "other-key-same-polynomial" {
					k2 := &dkg.BLSKeyring{PubPoly: share.NewPubPoly(suite, nil, cs2)}
					req.PubPolyBz, _ = k2.PubPolyBytes()
				}
				res.ResultMsgs[i].Data, _ = json.Marshal(req)
			}
		}
	}
}

func c02(tier string, args []string) int {
	r := newRun("C02", tier, "model_checking")
	// honest ceremonies up to n=5 (6 thorough); deviating announcements up to n=4
	maxN := 5
	if tier == "thorough" {
		maxN = 6
	}
	r.Assume = []string{
		"eager polling and merging on node stores in the key-generation phase (lemmas in DESIGN §3.2; the unmerged exploration is C08's)",
		"deal ciphertexts are randomised inside kyber (ECIES ephemeral keys from crypto/rand); they are computed once per exploration and shared by all branches",
		"cryptographic soundness of kyber and blst",
	}
	totS, totT, totTerm, oracleRuns := 0, 0, 0, 0
	var per []string
	cfgs := allNT(2, maxN)
	if os.Getenv("VERIF_PART") == "two-rounds" { // development aid: only the two-round part
		cfgs = nil
	}
	for _, nt := range cfgs {
		if r.TimeUp() {
			break
		}
		// honest ceremony, every order of answers in every phase
		d := &DKGRun{N: nt.n, T: nt.t}
		d.Setup(r)
		ready := 0
		res := d.Explore(r, func(s *worldx.State) {
			if keyMaterialOracle(r, "C02", d, s, "honest ceremony") {
				ready++
			}
		}, nil)
		if ready == 0 && !res.Stopped {
			r.Infra("honest ceremony n=%d t=%d never became signing-ready", nt.n, nt.t)
		}
		oracleRuns += ready
		totS += res.States
		totT += res.Transitions
		totTerm += res.Terminal
		per = append(per, fmt.Sprintf("n=%d t=%d honest: states=%d transitions=%d terminal=%d signing-ready-states=%d airgapped_runs=%d", nt.n, nt.t, res.States, res.Transitions, res.Terminal, ready, d.K.C.RealAnswers))
		if len(res.Terminals) > 0 && nt.n == 3 && nt.t == 2 {
			r.Sample(map[string]interface{}{"n": 3, "t": 2, "one_complete_trace": res.Terminals[0].Trace()})
		}
		d.Close()
		// one participant announces an inconsistent polynomial (every position in the order
		// is covered by the exploration of all orders)
		if nt.n > 4 {
			continue
		}
		for dev := 0; dev < nt.n; dev++ {
			for _, kind := range []string{"same-key-other-polynomial", "other-key", "other-key-same-polynomial", "same-key-no-polynomial", "same-key-empty-polynomial"} {
				if r.TimeUp() {
					break
				}
				dd := &DKGRun{N: nt.n, T: nt.t, Deviate: polyDeviation(dev, kind)}
				dd.Setup(r)
				label := fmt.Sprintf("participant %d announces %s", dev, kind)
				rd := 0
				res := dd.Explore(r, func(s *worldx.State) {
					if keyMaterialOracle(r, "C02", dd, s, label) {
						rd++
					}
				}, nil)
				oracleRuns += rd
				totS += res.States
				totT += res.Transitions
				totTerm += res.Terminal
				per = append(per, fmt.Sprintf("n=%d t=%d %s: states=%d transitions=%d signing-ready-states=%d", nt.n, nt.t, label, res.States, res.Transitions, rd))
				dd.Close()
			}
		}
	}
	// two rounds on the same machines (c02b.go)
	two := c02TwoRounds(r, tier)
	r.Set("two_round_histories", two)
	// one database write of one machine fails inside one of its operations (c02b.go)
	c02FailingWrites(r, tier)
	r.Set("states", totS)
	r.Set("transitions", totT)
	r.Set("traces_validated_against_impl", totTerm)
	r.Set("signing_ready_states_judged", oracleRuns)
	r.Set("explorations", per)
	r.Set("rule", "BFS over every order in which operators answer each key-generation phase (real nodes, real airgapped machines), states merged on node stores; in every state with a signing-ready node: all machine shares on one degree t-1 polynomial, its constant term = every announced key, every ready node retains that polynomial, every t-subset signs to the same blst-valid signature, no (t-1)-subset does; repeated with each participant announcing a different polynomial (same or different constant term); two rounds of the same machines (the second under an unrelated id, or one that differs by white space or case only; other threshold; one after the other in both orders, and interleaved): both rounds judged at the end and after the machines were reopened")
	return finish(r)
}
