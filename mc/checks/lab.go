package checks

import (
	"errors"
	"fmt"
	"regexp"
	"runtime/debug"
	"strings"
	"time"

	"github.com/lidofinance/dc4bc/client/modules/keystore"
	"github.com/lidofinance/dc4bc/fsm/fsm"
	dpf "github.com/lidofinance/dc4bc/fsm/state_machines/dkg_proposal_fsm"
	spf "github.com/lidofinance/dc4bc/fsm/state_machines/signature_proposal_fsm"
	sif "github.com/lidofinance/dc4bc/fsm/state_machines/signing_proposal_fsm"
	"github.com/lidofinance/dc4bc/fsm/types/requests"
	"github.com/lidofinance/dc4bc/storage"

	"verif/mc/world"
)

// Lab is one real node seen in isolation: messages are fed straight into
// NodeService.ProcessMessage, the state store is snapshot-able.
type Lab struct {
	N, T  int
	Node  *world.Node
	Board *world.Board
	Keys  []*keystore.KeyPair
	Names []string
	Round string
	Init  storage.Message
}

// NewLab builds the node of participant `view` of an n-participant round with fake (opaque)
// DKG keys; contributions are opaque to the round FSMs.
func NewLab(n, t, view int) (*Lab, error) {
	l := &Lab{N: n, T: t, Board: world.NewBoard()}
	var ps []*requests.SignatureProposalParticipantsEntry
	for i := 0; i < n; i++ {
		name := world.NodeName(i)
		kp := world.DetKeyPair(name)
		l.Keys = append(l.Keys, kp)
		l.Names = append(l.Names, name)
		ps = append(ps, &requests.SignatureProposalParticipantsEntry{Username: name, PubKey: kp.Pub, DkgPubKey: []byte(fmt.Sprintf("dkg-pub-key-%02d", i))})
	}
	nd, err := world.NewNodeOver(l.Names[view], l.Keys[view], world.NewMemState(world.Topic), l.Board.NewHandle())
	if err != nil {
		return nil, err
	}
	l.Node = nd
	payload := world.MustJSON(requests.SignatureProposalParticipantsListRequest{Participants: ps, SigningThreshold: t, CreatedAt: world.T0})
	l.Round = world.RoundID(payload)
	l.Init = world.SignedMessage(l.Round, string(spf.EventInitProposal), payload, l.Names[n-1], l.Keys[n-1].Priv, "")
	return l, nil
}

// Step restores snap, feeds one message to ProcessMessage and returns (error, new snapshot,
// board appends). A panic is reported as a distinct error value.
type PanicError struct {
	V    interface{}
	Site string // innermost dc4bc function on the panicking stack
}

func (p *PanicError) Error() string { return fmt.Sprintf("PANIC in %s: %v", p.Site, p.V) }

var frameRe = regexp.MustCompile(`(?m)^(github\.com/lidofinance/dc4bc/[^\s(]+(?:\([^)]*\))?[^\s(]*)\(`)

// PanicSite extracts the innermost repository function from a stack trace taken inside recover().
func PanicSite(stack []byte) string {
	for _, m := range frameRe.FindAllSubmatch(stack, -1) {
		f := string(m[1])
		if strings.Contains(f, "/verifshim/") {
			continue
		}
		f = strings.TrimPrefix(f, "github.com/lidofinance/dc4bc/")
		return f
	}
	return "outside-repository"
}

func (l *Lab) Step(snap world.Snapshot, m storage.Message) (err error, after world.Snapshot, appended []storage.Message) {
	l.Node.Mem.Restore(snap)
	l.Board.SetLog(nil)
	func() {
		defer func() {
			if r := recover(); r != nil {
				err = &PanicError{V: r, Site: PanicSite(debug.Stack())}
			}
		}()
		err = l.Node.Svc.ProcessMessage(m)
	}()
	return err, l.Node.Mem.Snapshot(), l.Board.Log()
}

// StepL is Step that also returns the node's log lines of this step.
func (l *Lab) StepL(snap world.Snapshot, m storage.Message) (err error, after world.Snapshot, appended []storage.Message, logs []string) {
	l.Node.Log.Keep = true
	l.Node.Log.Take()
	err, after, appended = l.Step(snap, m)
	return err, after, appended, l.Node.Log.Take()
}

// NewLabFor builds a lab around a fresh node with the identity of participant `view` of an
// existing world (same communication key), on its own board.
func NewLabFor(w *world.World, view int) (*Lab, error) {
	l := &Lab{N: w.N, T: w.T, Board: world.NewBoard(), Round: w.Round}
	for _, n := range w.Nodes {
		l.Keys = append(l.Keys, n.KeyPair)
		l.Names = append(l.Names, n.Name)
	}
	nd, err := world.NewNodeOver(l.Names[view], l.Keys[view], world.NewMemState(world.Topic), l.Board.NewHandle())
	if err != nil {
		return nil, err
	}
	l.Node = nd
	return l, nil
}

// Input is one element of an exploration alphabet.
type Input struct {
	Label   string
	Msg     storage.Message
	Event   fsm.Event
	PID     int    // claimed participant id
	Variant string // valid | empty | late | keyB | ...
	Phase   int    // phase the event belongs to (-1: none)
	Fail    bool   // failure event of its phase
}

var Late = world.T0.Add(8 * 24 * time.Hour)

// Phase numbering: 0 invitation, 1 commits, 2 deals, 3 responses, 4 master key, 5 signing-ready.
var phaseOfState = map[fsm.State]int{
	spf.StateAwaitParticipantsConfirmations:             0,
	dpf.StateDkgCommitsAwaitConfirmations:               1,
	dpf.StateDkgDealsAwaitConfirmations:                 2,
	dpf.StateDkgResponsesAwaitConfirmations:             3,
	dpf.StateDkgMasterKeyAwaitConfirmations:             4,
	sif.StateSigningIdle:                                5,
	sif.StateSigningAwaitPartialSigns:                   5,
	sif.StateSigningPartialSignsCollected:               5,
	sif.StateSigningPartialSignsAwaitCancelledByError:   5,
	sif.StateSigningPartialSignsAwaitCancelledByTimeout: 5,
}

var cancelledStates = map[fsm.State]bool{
	spf.StateValidationCanceledByParticipant:    true,
	spf.StateValidationCanceledByTimeout:        true,
	dpf.StateDkgCommitsAwaitCanceledByError:     true,
	dpf.StateDkgCommitsAwaitCanceledByTimeout:   true,
	dpf.StateDkgDealsAwaitCanceledByError:       true,
	dpf.StateDkgDealsAwaitCanceledByTimeout:     true,
	dpf.StateDkgResponsesAwaitCanceledByError:   true,
	dpf.StateDkgResponsesAwaitCanceledByTimeout: true,
	dpf.StateDkgMasterKeyAwaitCanceledByError:   true,
	dpf.StateDkgMasterKeyAwaitCanceledByTimeout: true,
}

// DKGAlphabet builds the public-event alphabet of DESIGN A.1/§4-C05 for a lab.
// Every message is signed by the participant it claims to come from (unknown ids: participant 0).
func (l *Lab) DKGAlphabet() []Input {
	var out []Input
	ids := []int{}
	for i := 0; i < l.N; i++ {
		ids = append(ids, i)
	}
	ids = append(ids, l.N, -1)
	mk := func(ev fsm.Event, pid int, variant string, phase int, fail bool, data []byte) {
		s := pid
		if s < 0 || s >= l.N {
			s = 0
		}
		rcpt := ""
		m := world.SignedMessage(l.Round, string(ev), data, l.Names[s], l.Keys[s].Priv, rcpt)
		out = append(out, Input{Label: fmt.Sprintf("%s[p=%d,%s]", ev, pid, variant), Msg: m, Event: ev, PID: pid, Variant: variant, Phase: phase, Fail: fail})
	}
	ferr := requests.NewFSMError(errors.New("reported failure"))
	for _, pid := range ids {
		for _, v := range []string{"valid", "late"} {
			at := world.T0
			if v == "late" {
				at = Late
			}
			mk(spf.EventConfirmSignatureProposal, pid, v, 0, false, world.MustJSON(requests.SignatureProposalParticipantRequest{ParticipantId: pid, CreatedAt: at}))
		}
		mk(spf.EventDeclineProposal, pid, "valid", 0, true, world.MustJSON(requests.SignatureProposalParticipantRequest{ParticipantId: pid, CreatedAt: world.T0}))
		for _, v := range []string{"valid", "empty", "late"} {
			at := world.T0
			if v == "late" {
				at = Late
			}
			c := func(s string) []byte {
				if v == "empty" {
					return nil
				}
				return []byte(fmt.Sprintf("%s-of-%d", s, pid))
			}
			mk(dpf.EventDKGCommitConfirmationReceived, pid, v, 1, false, world.MustJSON(requests.DKGProposalCommitConfirmationRequest{ParticipantId: pid, Commit: c("commit"), CreatedAt: at}))
			mk(dpf.EventDKGDealConfirmationReceived, pid, v, 2, false, world.MustJSON(requests.DKGProposalDealConfirmationRequest{ParticipantId: pid, Deal: c("deal"), CreatedAt: at}))
			mk(dpf.EventDKGResponseConfirmationReceived, pid, v, 3, false, world.MustJSON(requests.DKGProposalResponseConfirmationRequest{ParticipantId: pid, Response: c("response"), CreatedAt: at}))
			key := []byte("group-key-A")
			if v == "empty" {
				key = nil
			}
			mk(dpf.EventDKGMasterKeyConfirmationReceived, pid, v, 4, false, world.MustJSON(requests.DKGProposalMasterKeyConfirmationRequest{ParticipantId: pid, MasterKey: key, PubPolyBz: []byte("poly-A"), CreatedAt: at}))
		}
		mk(dpf.EventDKGMasterKeyConfirmationReceived, pid, "keyB", 4, false, world.MustJSON(requests.DKGProposalMasterKeyConfirmationRequest{ParticipantId: pid, MasterKey: []byte("group-key-B"), PubPolyBz: []byte("poly-B"), CreatedAt: world.T0}))
		// a different key announced together with the polynomial everybody else announces
		mk(dpf.EventDKGMasterKeyConfirmationReceived, pid, "keyB-polyA", 4, false, world.MustJSON(requests.DKGProposalMasterKeyConfirmationRequest{ParticipantId: pid, MasterKey: []byte("group-key-B"), PubPolyBz: []byte("poly-A"), CreatedAt: world.T0}))
		for ph, ev := range []fsm.Event{dpf.EventDKGCommitConfirmationError, dpf.EventDKGDealConfirmationError, dpf.EventDKGResponseConfirmationError, dpf.EventDKGMasterKeyConfirmationError} {
			mk(ev, pid, "valid", ph+1, true, world.MustJSON(requests.DKGProposalConfirmationErrorRequest{ParticipantId: pid, Error: ferr, CreatedAt: world.T0}))
			// the same report stamped after the deadline: a reported error AND an expired deadline
			mk(ev, pid, "late", ph+1, true, world.MustJSON(requests.DKGProposalConfirmationErrorRequest{ParticipantId: pid, Error: ferr, CreatedAt: Late}))
		}
		// signing events as out-of-phase probes
		mk(sif.EventSigningPartialSignReceived, pid, "probe", -1, false, world.MustJSON(requests.SigningProposalBatchPartialSignRequests{BatchID: "b", ParticipantId: pid, PartialSigns: []requests.PartialSign{{MessageID: "m", Sign: []byte("s")}}, CreatedAt: world.T0}))
		mk(sif.EventSigningPartialSignError, pid, "probe", -1, true, world.MustJSON(requests.SignatureProposalConfirmationErrorRequest{ParticipantId: pid, Error: ferr, CreatedAt: world.T0}))
	}
	// a signing proposal (acceptable only in the signing-ready state)
	mk(sif.EventSigningStart, 0, "probe", -1, false, world.MustJSON(requests.SigningBatchProposalStartRequest{BatchID: "probe-batch", ParticipantId: 0, CreatedAt: world.T0, SigningTasks: []requests.SigningTask{{MessageID: "m", File: "f", Payload: []byte("x")}}}))
	// events without a participant
	def := world.MustJSON(requests.DefaultRequest{CreatedAt: world.T0})
	mk(dpf.EventDKGInitProcess, 0, "outside", -1, false, def)
	mk(sif.EventSigningInit, 0, "outside", -1, false, def)
	mk(sif.EventSigningRestart, 0, "outside", -1, false, def)
	mk("event_unknown_to_everyone", 0, "outside", -1, false, def)
	// the opening proposal again (unverified by design) must not restart an existing round
	out = append(out, Input{Label: "event_sig_proposal_init[again]", Msg: l.Init, Event: spf.EventInitProposal, PID: 0, Variant: "again", Phase: -1})
	return out
}
