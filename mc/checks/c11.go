package checks

import (
	"bytes"
	"crypto/sha256"
	"encoding/json"
	"fmt"
	"os"
	"reflect"
	"strings"

	"github.com/corestario/kyber"
	"github.com/corestario/kyber/encrypt/ecies"
	"github.com/corestario/kyber/pairing/bls12381"
	"github.com/corestario/kyber/share"
	dkgPedersen "github.com/corestario/kyber/share/dkg/pedersen"
	vss "github.com/corestario/kyber/share/vss/pedersen"
	"github.com/corestario/kyber/sign/schnorr"
	"github.com/corestario/kyber/util/random"
	"lukechampine.com/frand"

	"github.com/lidofinance/dc4bc/airgapped"
	"github.com/lidofinance/dc4bc/client/types"
	"github.com/lidofinance/dc4bc/dkg"
	"github.com/lidofinance/dc4bc/fsm/fsm"
	dpf "github.com/lidofinance/dc4bc/fsm/state_machines/dkg_proposal_fsm"
	sif "github.com/lidofinance/dc4bc/fsm/state_machines/signing_proposal_fsm"
	"github.com/lidofinance/dc4bc/fsm/types/requests"
	"github.com/lidofinance/dc4bc/storage"

	"verif/mc/kit"
	"verif/mc/world"
	"verif/mc/worldx"
)

func init() { Registry["C11"] = c11 }

// otherPolynomialDeal builds a self-consistent deal of dealer D for victim V from a SECOND
// dealer polynomial (same long-term key, same participants and threshold), encrypted to V.
func otherPolynomialDeal(r *kit.Run, w *world.World, round string, t, D, V int) []byte {
	deal, _ := otherPolynomial(r, w, round, t, D, V)
	return deal
}

// otherPolynomial returns the deal for V and the marshalled public commitments of the second polynomial.
func otherPolynomial(r *kit.Run, w *world.World, round string, t, D, V int) ([]byte, []byte) {
	a := w.Airs[D]
	seed := sha256.Sum256(append([]byte(round), a.M.VerifBaseSeed()...))
	suite := bls12381.NewBLS12381Suite(seed[:])
	inst := dkg.Init(suite, a.M.GetPubKey(), a.M.VerifSecKey())
	inst.Threshold = t
	inst.N = w.N
	for i, x := range w.Airs {
		inst.StorePubKey(w.Nodes[i].Name, i, x.M.GetPubKey())
	}
	other := sha256.Sum256([]byte("another dealer polynomial"))
	if err := initDKGInstance(inst, other[:]); err != nil {
		r.Infra("second dealer instance: %v", err)
	}
	deals, err := inst.GetDeals()
	if err != nil {
		r.Infra("second dealer deals: %v", err)
	}
	bz, err := json.Marshal(deals[V])
	if err != nil {
		r.Infra("marshal deal: %v", err)
	}
	base := bls12381.NewBLS12381Suite(nil)
	enc, err := ecies.Encrypt(base, w.Airs[V].M.GetPubKey(), bz, base.Hash)
	if err != nil {
		r.Infra("encrypt deal: %v", err)
	}
	var pts [][]byte
	for _, c := range inst.GetCommits() {
		cb, err := c.MarshalBinary()
		if err != nil {
			r.Infra("marshal commitment: %v", err)
		}
		pts = append(pts, cb)
	}
	commits, _ := json.Marshal(pts)
	return enc, commits
}

// shiftedPolynomialDeal: the dealer's own polynomial with the constant term moved by one (the
// machine draws its polynomial from its base seed; the same stream gives the same higher
// coefficients): the deal for V contradicts the broadcast commitments in the first place only.
func shiftedPolynomialDeal(r *kit.Run, w *world.World, t, D, V int) []byte {
	a := w.Airs[D]
	suite := bls12381.NewBLS12381Suite(nil)
	var pubs []kyber.Point
	for _, x := range w.Airs {
		pubs = append(pubs, x.M.GetPubKey())
	}
	stream := random.New(frand.NewCustom(a.M.VerifBaseSeed(), 32, 20))
	secret := suite.Scalar().Pick(stream)
	dealer, err := vss.NewDealer(suite, a.M.VerifSecKey(), suite.Scalar().Add(secret, suite.Scalar().One()), pubs, t, stream)
	if err != nil {
		r.Infra("shifted dealer: %v", err)
	}
	enc, err := dealer.EncryptedDeal(V)
	if err != nil {
		r.Infra("shifted dealer deal: %v", err)
	}
	deal := &dkgPedersen.Deal{Index: uint32(D), Deal: enc}
	buf, err := deal.MarshalBinary()
	if err != nil {
		r.Infra("shifted dealer deal: %v", err)
	}
	if deal.Signature, err = schnorr.Sign(suite, a.M.VerifSecKey(), buf); err != nil {
		r.Infra("shifted dealer deal: %v", err)
	}
	bz, _ := json.Marshal(deal)
	base := bls12381.NewBLS12381Suite(nil)
	out, err := ecies.Encrypt(base, w.Airs[V].M.GetPubKey(), bz, base.Hash)
	if err != nil {
		r.Infra("encrypt deal: %v", err)
	}
	return out
}

// innerDealMutations: field-level edits of the PLAINTEXT vss deal before the dealer encrypts and
// signs it (what a dealer running modified software sends: everything around the deal is valid).
// (a deal WITHOUT its SessionID field is not in the list: kyber answers with the session id it
// computes and such a deal turned out to have no effect; a deal naming ANOTHER session id has)
var innerDealMutations = map[string]func(d *vss.Deal){
	"no-share": func(d *vss.Deal) { d.SecShare = nil },
	"share-without-value": func(d *vss.Deal) {
		if d.SecShare != nil {
			d.SecShare = &share.PriShare{I: d.SecShare.I, V: nil}
		}
	},
	// (the session id written into the deal, where kyber computes its own from dealer, verifiers,
	// commitments and threshold)
	"foreign-session-id": func(d *vss.Deal) {
		h := sha256.Sum256([]byte("some other session"))
		d.SessionID = h[:]
	},
	"threshold-zero": func(d *vss.Deal) { d.T = 0 },
	"threshold-huge": func(d *vss.Deal) { d.T = 1 << 30 },
	"no-commitments": func(d *vss.Deal) { d.Commitments = nil },
	"share-index-huge": func(d *vss.Deal) {
		if d.SecShare != nil {
			d.SecShare = &share.PriShare{I: 1 << 20, V: d.SecShare.V}
		}
	},
}

// innerMutatedDeal builds, with kyber itself and the dealer's real long-term key, a complete
// dealer run whose deal for V has one plaintext field edited; returns the encrypted deal for V
// (ECIES to V, as the machine sends it) and the commitments that dealer run broadcasts.
func innerMutatedDeal(r *kit.Run, w *world.World, t, D, V int, mutation string) (deal []byte, commits []byte, err error) {
	defer func() {
		if x := recover(); x != nil {
			err = fmt.Errorf("kyber refuses to build the deal: %v", x)
		}
	}()
	suite := bls12381.NewBLS12381Suite(nil)
	var pubs []kyber.Point
	for _, a := range w.Airs {
		pubs = append(pubs, a.M.GetPubKey())
	}
	seed := sha256.Sum256([]byte("dealer with an edited deal"))
	gen, gerr := dkgPedersen.NewDistKeyGenerator(suite, w.Airs[D].M.VerifSecKey(), pubs, t, frand.NewCustom(seed[:], 32, 20))
	if gerr != nil {
		return nil, nil, gerr
	}
	plain, perr := gen.GetDealer().PlaintextDeal(V)
	if perr != nil {
		return nil, nil, perr
	}
	innerDealMutations[mutation](plain)
	deals, derr := gen.Deals()
	if derr != nil {
		return nil, nil, derr
	}
	bz, merr := json.Marshal(deals[V])
	if merr != nil {
		return nil, nil, merr
	}
	enc, eerr := ecies.Encrypt(suite, w.Airs[V].M.GetPubKey(), bz, suite.Hash)
	if eerr != nil {
		return nil, nil, eerr
	}
	var pts [][]byte
	for _, c := range gen.GetDealer().Commits() {
		cb, _ := c.MarshalBinary()
		pts = append(pts, cb)
	}
	commits, _ = json.Marshal(pts)
	return enc, commits, nil
}

type deviation struct {
	Kind    string
	Phase   fsm.State // operation type of the dealer that is answered dishonestly
	Victims func(n, D, V int) []int
}

func onlyV(n, D, V int) []int { return []int{V} }
func allButD(n, D, V int) []int {
	var out []int
	for i := 0; i < n; i++ {
		if i != D {
			out = append(out, i)
		}
	}
	return out
}

func c11(tier string, args []string) int {
	r := newRun("C11", tier, "fault_enumeration")
	cfgs := []ntPair{{2, 2}, {3, 2}, {3, 3}}
	if tier == "thorough" {
		cfgs = allNT(2, 4)
	}
	r.Assume = []string{
		"one deviating dealer per ceremony, everything else honest; canonical order of answers (all orders for n=3 in the thorough tier)",
		"the deviating deal from another polynomial is a self-consistent kyber deal built with the dealer's real long-term key",
	}
	devs := []deviation{
		{"deal-from-other-polynomial", dpf.StateDkgDealsAwaitConfirmations, onlyV},
		{"deal-from-polynomial-with-other-constant-term", dpf.StateDkgDealsAwaitConfirmations, onlyV},
		{"deal-encrypted-to-third-party", dpf.StateDkgDealsAwaitConfirmations, onlyV},
		{"deal-truncated", dpf.StateDkgDealsAwaitConfirmations, onlyV},
		{"deal-bit-flipped", dpf.StateDkgDealsAwaitConfirmations, onlyV},
		{"deal-empty-json", dpf.StateDkgDealsAwaitConfirmations, onlyV},
		// a correctly encrypted deal whose AES-GCM nonce is 420 000 bytes long: the deal still fits
		// into a board line; so must whatever the victim has to post about it
		{"deal-with-a-nonce-of-420000-bytes", dpf.StateDkgDealsAwaitConfirmations, onlyV},
		// the genuine deal under ANOTHER dealer index (the victim's own, or a third participant's):
		// the machine files deals by the sender's name and trusts the index the sender wrote
		{"deal-under-the-next-dealer-index", dpf.StateDkgDealsAwaitConfirmations, onlyV},
		{"deal-under-the-dealer-index-after-next", dpf.StateDkgDealsAwaitConfirmations, onlyV},
		{"commitments-too-short", dpf.StateDkgCommitsAwaitConfirmations, allButD},
		{"commitments-too-long", dpf.StateDkgCommitsAwaitConfirmations, allButD},
		{"commitments-empty", dpf.StateDkgCommitsAwaitConfirmations, allButD},
		{"commitments-other-point", dpf.StateDkgCommitsAwaitConfirmations, allButD},
		{"response-with-complaint", dpf.StateDkgResponsesAwaitConfirmations, allButD},
		// all the approvals a participant owes, and BEHIND them one more answer about the first
		// dealer: a complaint, validly signed with the participant's long-term key
		{"response-with-a-signed-complaint-behind-the-approvals", dpf.StateDkgResponsesAwaitConfirmations, allButD},
		// the dealer tells the victim - in a commitments message addressed to the victim alone and
		// posted before the broadcast one - the commitments of a second polynomial, and deals the
		// victim a share of that polynomial: the deal contradicts the commitments it BROADCAST
		{"commitments-told-privately", dpf.StateDkgCommitsAwaitConfirmations, onlyV},
	}
	// the dealer sends the victim a garbled deal and HOLDS BACK its deals to everybody else until
	// the victim has reported the failure: the others are then still collecting deals
	devs = append(devs, deviation{"deal-garbled-others-kept-waiting", dpf.StateDkgDealsAwaitConfirmations, onlyV})
	// the garbled deal carries a creation time ten years ahead (the sender chooses it)
	devs = append(devs, deviation{"deal-garbled-and-dated-in-the-future", dpf.StateDkgDealsAwaitConfirmations, onlyV})
	for _, m := range world.SortedKeys(innerDealMutations) {
		devs = append(devs, deviation{"inner-deal-" + m, dpf.StateDkgCommitsAwaitConfirmations, onlyV})
	}
	evals, distinct := 0, 0
	for _, nt := range cfgs {
		for D := 0; D < nt.n; D++ {
			for V := 0; V < nt.n; V++ {
				if V == D {
					continue
				}
				for _, dv := range devs {
					if r.TimeUp() {
						break
					}
					if dv.Kind == "deal-encrypted-to-third-party" && nt.n < 3 {
						continue
					}
					if dv.Kind == "response-with-a-signed-complaint-behind-the-approvals" && nt.n < 3 {
						// with two participants each owes ONE answer and the machine's store of
						// received answers holds (n-1)^2 = 1 per peer: the surplus one never
						// reaches kyber. Every deal was consistent there, so the statement does not
						// forbid the outcome (DESIGN §8); from n = 3 on the surplus answer is seen
						// and refused, which is what is judged
						continue
					}
					if (strings.HasPrefix(dv.Kind, "commitments") && dv.Kind != "commitments-told-privately") || strings.HasPrefix(dv.Kind, "response-with-") {
						if V != (D+1)%nt.n {
							continue // these deviations are not addressed to one victim
						}
					}
					runC11(r, nt.n, nt.t, D, V, dv, tier == "thorough" && nt.n == 3)
					evals++
					distinct++
				}
			}
		}
	}
	r.Set("evaluations", evals)
	r.Set("distinct_nontrivial", distinct)
	r.Set("rule", "every (n,t) x dealer x victim x deviation kind runs a complete ceremony on real nodes and real airgapped machines with the dealer's operator submitting the deviating result; oracle: the victim(s) report the phase's error event, every node ends cancelled-by-error, no honest machine stores a key share, no node is ever signing-ready")
	return finish(r)
}

func runC11(r *kit.Run, n, t, D, V int, dv deviation, allOrders bool) {
	label := fmt.Sprintf("n=%d t=%d dealer=%d victim=%d %s", n, t, D, V, dv.Kind)
	var run *DKGRun
	applied := false
	var withheld []storage.Message
	unbuildable := false
	deviate := func(node int, op *types.Operation) func(res *types.Operation) {
		if node != D {
			return nil
		}
		if strings.HasPrefix(dv.Kind, "inner-deal-") {
			w := run.W
			mutation := strings.TrimPrefix(dv.Kind, "inner-deal-")
			switch fsm.State(op.Type) {
			case dpf.StateDkgCommitsAwaitConfirmations:
				return func(res *types.Operation) {
					_, commits, err := innerMutatedDeal(r, w, t, D, V, mutation)
					if err != nil {
						return // kyber cannot even produce such a deal: nothing to send
					}
					var req requests.DKGProposalCommitConfirmationRequest
					_ = json.Unmarshal(res.ResultMsgs[0].Data, &req)
					req.Commit = commits
					res.ResultMsgs[0].Data, _ = json.Marshal(req)
				}
			case dpf.StateDkgDealsAwaitConfirmations:
				return func(res *types.Operation) {
					deal, _, err := innerMutatedDeal(r, w, t, D, V, mutation)
					if err != nil {
						unbuildable = true
						return
					}
					for i := range res.ResultMsgs {
						if res.ResultMsgs[i].RecipientAddr == w.Nodes[V].Name {
							var req requests.DKGProposalDealConfirmationRequest
							_ = json.Unmarshal(res.ResultMsgs[i].Data, &req)
							req.Deal = deal
							res.ResultMsgs[i].Data, _ = json.Marshal(req)
							applied = true
						}
					}
				}
			}
			return nil
		}
		if dv.Kind == "commitments-told-privately" {
			w := run.W
			switch fsm.State(op.Type) {
			case dpf.StateDkgCommitsAwaitConfirmations:
				return func(res *types.Operation) {
					applied = true
					_, commits := otherPolynomial(r, w, run.Round, t, D, V)
					var req requests.DKGProposalCommitConfirmationRequest
					_ = json.Unmarshal(res.ResultMsgs[0].Data, &req)
					req.Commit = commits
					private := res.ResultMsgs[0]
					private.RecipientAddr = w.Nodes[V].Name
					private.Data, _ = json.Marshal(req)
					res.ResultMsgs = append([]storage.Message{private}, res.ResultMsgs...)
				}
			case dpf.StateDkgDealsAwaitConfirmations:
				return func(res *types.Operation) {
					for i := range res.ResultMsgs {
						if res.ResultMsgs[i].RecipientAddr == w.Nodes[V].Name {
							var req requests.DKGProposalDealConfirmationRequest
							_ = json.Unmarshal(res.ResultMsgs[i].Data, &req)
							req.Deal, _ = otherPolynomial(r, w, run.Round, t, D, V)
							res.ResultMsgs[i].Data, _ = json.Marshal(req)
						}
					}
				}
			}
			return nil
		}
		if fsm.State(op.Type) != dv.Phase {
			return nil
		}
		return func(res *types.Operation) {
			applied = true
			w := run.W
			switch dv.Phase {
			case dpf.StateDkgDealsAwaitConfirmations:
				vi, wi := -1, -1
				for i := range res.ResultMsgs {
					if res.ResultMsgs[i].RecipientAddr == w.Nodes[V].Name {
						vi = i
					} else if res.ResultMsgs[i].RecipientAddr != w.Nodes[D].Name && wi < 0 {
						wi = i
					}
				}
				if vi < 0 {
					r.Infra("%s: no deal addressed to the victim", label)
				}
				var req requests.DKGProposalDealConfirmationRequest
				_ = json.Unmarshal(res.ResultMsgs[vi].Data, &req)
				switch dv.Kind {
				case "deal-from-other-polynomial":
					req.Deal = otherPolynomialDeal(r, w, run.Round, t, D, V)
				case "deal-from-polynomial-with-other-constant-term":
					req.Deal = shiftedPolynomialDeal(r, w, t, D, V)
				case "deal-encrypted-to-third-party":
					var other requests.DKGProposalDealConfirmationRequest
					_ = json.Unmarshal(res.ResultMsgs[wi].Data, &other)
					req.Deal = other.Deal
				case "deal-garbled-others-kept-waiting":
					req.Deal = req.Deal[:len(req.Deal)*2/3]
					var keep []storage.Message
					for i := range res.ResultMsgs {
						if i == vi || res.ResultMsgs[i].RecipientAddr == w.Nodes[D].Name {
							keep = append(keep, res.ResultMsgs[i])
						} else {
							m := res.ResultMsgs[i]
							withheld = append(withheld, world.SignedMessage(m.DkgRoundID, m.Event, m.Data, w.Nodes[D].Name, w.Nodes[D].KeyPair.Priv, m.RecipientAddr))
						}
					}
					for i := range keep {
						if keep[i].RecipientAddr == w.Nodes[V].Name {
							vi = i
						}
					}
					res.ResultMsgs = keep
				case "deal-garbled-and-dated-in-the-future":
					req.Deal = req.Deal[:len(req.Deal)*2/3]
					req.CreatedAt = req.CreatedAt.AddDate(10, 0, 0)
				case "deal-truncated":
					req.Deal = req.Deal[:len(req.Deal)*2/3]
				case "deal-bit-flipped":
					req.Deal = append([]byte(nil), req.Deal...)
					req.Deal[len(req.Deal)-7] ^= 0x10
				case "deal-empty-json":
					base := bls12381.NewBLS12381Suite(nil)
					req.Deal, _ = ecies.Encrypt(base, w.Airs[V].M.GetPubKey(), []byte("{}"), base.Hash)
				case "deal-under-the-next-dealer-index", "deal-under-the-dealer-index-after-next":
					base := bls12381.NewBLS12381Suite(nil)
					plain, derr := ecies.Decrypt(base, w.Airs[V].M.VerifSecKey(), req.Deal, base.Hash)
					var dl dkgPedersen.Deal
					if derr != nil || json.Unmarshal(plain, &dl) != nil || dl.Deal == nil {
						r.Infra("%s: the genuine deal cannot be opened with the victim's key: %v", label, derr)
					}
					step := uint32(1)
					if dv.Kind == "deal-under-the-dealer-index-after-next" {
						step = 2
					}
					if step%uint32(w.N) == 0 {
						unbuildable = true // (with two participants "after next" is the dealer itself)
						break
					}
					dl.Index = (dl.Index + step) % uint32(w.N)
					plain, _ = json.Marshal(&dl)
					req.Deal, _ = ecies.Encrypt(base, w.Airs[V].M.GetPubKey(), plain, base.Hash)
				case "deal-with-a-nonce-of-420000-bytes":
					base := bls12381.NewBLS12381Suite(nil)
					plain, derr := ecies.Decrypt(base, w.Airs[V].M.VerifSecKey(), req.Deal, base.Hash)
					var dl dkgPedersen.Deal
					if derr != nil || json.Unmarshal(plain, &dl) != nil || dl.Deal == nil {
						r.Infra("%s: the genuine deal cannot be opened with the victim's key: %v", label, derr)
					}
					dl.Deal.Nonce = bytes.Repeat([]byte{0x5a}, 420000)
					plain, _ = json.Marshal(&dl)
					req.Deal, _ = ecies.Encrypt(base, w.Airs[V].M.GetPubKey(), plain, base.Hash)
				}
				res.ResultMsgs[vi].Data, _ = json.Marshal(req)
			case dpf.StateDkgCommitsAwaitConfirmations:
				var req requests.DKGProposalCommitConfirmationRequest
				_ = json.Unmarshal(res.ResultMsgs[0].Data, &req)
				var pts [][]byte
				_ = json.Unmarshal(req.Commit, &pts)
				switch dv.Kind {
				case "commitments-too-short":
					pts = pts[:len(pts)-1]
				case "commitments-too-long":
					pts = append(pts, pts[0])
				case "commitments-empty":
					pts = [][]byte{}
				case "commitments-other-point":
					pts[len(pts)-1] = pts[0]
				}
				req.Commit, _ = json.Marshal(pts)
				res.ResultMsgs[0].Data, _ = json.Marshal(req)
			case dpf.StateDkgResponsesAwaitConfirmations:
				var req requests.DKGProposalResponseConfirmationRequest
				_ = json.Unmarshal(res.ResultMsgs[0].Data, &req)
				var rs []*dkgPedersen.Response
				_ = json.Unmarshal(req.Response, &rs)
				if dv.Kind == "response-with-a-signed-complaint-behind-the-approvals" {
					if len(rs) > 0 && rs[0].Response != nil {
						suite := bls12381.NewBLS12381Suite(nil)
						cp := *rs[0].Response
						cp.Status = false
						cp.Signature = nil
						sig, serr := schnorr.Sign(suite, w.Airs[D].M.VerifSecKey(), cp.Hash(suite))
						if serr != nil {
							r.Infra("%s: signing the complaint: %v", label, serr)
						}
						cp.Signature = sig
						rs = append(rs, &dkgPedersen.Response{Index: rs[0].Index, Response: &cp})
					}
				} else if len(rs) > 0 && rs[0].Response != nil {
					rs[0].Response.Status = false
				}
				req.Response, _ = json.Marshal(rs)
				res.ResultMsgs[0].Data, _ = json.Marshal(req)
			}
		}
	}
	run = &DKGRun{N: n, T: t, Deviate: deviate, Linear: !allOrders}
	if dv.Kind == "deal-garbled-others-kept-waiting" {
		run.Adversary = func(s *worldx.State) [][]storage.Message {
			if len(withheld) == 0 {
				return nil
			}
			reported, posted := false, false
			for _, m := range s.Log {
				if m.SenderAddr == run.W.Nodes[V].Name && strings.HasSuffix(m.Event, "_canceled_by_error") {
					reported = true
				}
				if m.SenderAddr == run.W.Nodes[D].Name && m.Event == withheld[0].Event && m.RecipientAddr == withheld[0].RecipientAddr {
					posted = true
				}
			}
			if reported && !posted {
				return [][]storage.Message{withheld}
			}
			return nil
		}
	}
	run.OnMachinePanic = func(s *worldx.State, node int, op *types.Operation, p *world.MachinePanic) {
		site := PanicSite([]byte(p.Stack))
		r.Violation("C11/machine-crashed/"+dv.Kind, fmt.Sprintf("%s: the airgapped machine of participant %d crashed while processing %s (in %s): %v — it must refuse the deal and report an error", label, node, op.Type, site, p.V), map[string]interface{}{"scenario": label, "trace": s.Trace()})
	}
	run.OnRefusedResult = func(s *worldx.State, node int, op *types.Operation, apiErr error) {
		r.Violation("C11/honest-answer-cannot-be-posted/"+dv.Kind, fmt.Sprintf("%s: the node of participant %d cannot post what its machine answered to %s (%v): nobody learns of it, the round is not cancelled", label, node, op.Type, apiErr), map[string]interface{}{"scenario": label, "trace": s.Trace()})
	}
	run.Setup(r)
	defer run.Close()
	k := run.K
	refed := 0
	trace := func(s *worldx.State) interface{} {
		return map[string]interface{}{"scenario": label, "trace": s.Trace()}
	}
	res := run.Explore(r, func(s *worldx.State) {
		for j := range s.Snap {
			if !unbuildable && k.C.Snapshot(s.Snap[j]).RoundState(run.Round) == string(sif.StateSigningIdle) {
				r.Violation("C11/signing-ready-despite-"+dv.Kind, fmt.Sprintf("%s: node %d became signing-ready", label, j), trace(s))
			}
		}
	}, func(s *worldx.State) {
		if unbuildable {
			return // kyber itself cannot encode this edit: the honest ceremony ran
		}
		if !applied {
			r.Infra("%s: the deviation was never applied", label)
		}
		// (1) the victim(s) reported the phase's error event
		for _, v := range dv.Victims(n, D, V) {
			found := false
			for _, m := range s.Log {
				if m.SenderAddr == run.W.Nodes[v].Name && strings.HasSuffix(m.Event, "_canceled_by_error") {
					found = true
				}
			}
			if !found {
				r.Violation("C11/victim-did-not-report/"+dv.Kind, fmt.Sprintf("%s: participant %d never reported an error", label, v), trace(s))
			}
		}
		// (2) every node ends in a cancelled-by-error state
		for j := range s.Snap {
			st := k.C.Snapshot(s.Snap[j]).RoundState(run.Round)
			if !strings.HasSuffix(st, "_canceled_by_error") {
				r.Violation("C11/round-not-cancelled/"+dv.Kind, fmt.Sprintf("%s: node %d ends in %s", label, j, st), trace(s))
			}
		}
		// (4) the refusal is stable: the operation the victim refused, fed to the same running
		// machine again (the operator scans it a second time) and then replayed from the log on
		// the running machine, is refused again - it must never turn into an approval
		for _, v := range dv.Victims(n, D, V) {
			a, err := k.MachineAt(s, v)
			if err != nil {
				r.Infra("%s: machine %d: %v", label, v, err)
			}
			raw, _ := a.M.VerifDBGet("operations_log")
			var lg airgapped.RoundOperationLog
			_ = json.Unmarshal(raw, &lg)
			ops := lg[run.Round]
			if len(ops) == 0 {
				continue
			}
			last := ops[len(ops)-1]
			first, ferr := a.Process(&last)
			a.Ops = []string{"<fed again by C11>"} // the worker must rebuild this machine before reusing it
			if ferr != nil || first == nil {
				continue
			}
			refed++
			refusedBefore := false
			for _, m := range s.Log {
				if m.SenderAddr == run.W.Nodes[v].Name && strings.HasSuffix(m.Event, "_canceled_by_error") {
					refusedBefore = true
				}
			}
			if refusedBefore && !strings.HasSuffix(string(first.Event), "_canceled_by_error") {
				r.Violation("C11/refusal-not-stable/"+dv.Kind, fmt.Sprintf("%s: participant %d's machine refused the %s operation, but answers %s when the same operation is fed to it again", label, v, last.Type, first.Event), trace(s))
				continue
			}
			if rerr := a.M.ReplayOperationsLog(run.Round); rerr == nil {
				if bz, e2 := os.ReadFile(a.ResultFile(&last)); e2 == nil {
					var again types.Operation
					if json.Unmarshal(bz, &again) == nil && refusedBefore && !strings.HasSuffix(string(again.Event), "_canceled_by_error") {
						r.Violation("C11/refusal-not-stable/"+dv.Kind, fmt.Sprintf("%s: participant %d's machine refused the %s operation, but after replaying its operation log on the running machine the result file says %s", label, v, last.Type, again.Event), trace(s))
					}
				}
			}
		}
		// (3) no honest machine stores a share
		for i := 0; i < n; i++ {
			if i == D {
				continue
			}
			a, err := k.MachineAt(s, i)
			if err != nil {
				r.Infra("%s: machine %d: %v", label, i, err)
			}
			krs, _ := a.M.GetBLSKeyrings()
			if krs[run.Round] != nil {
				r.Violation("C11/share-stored-despite-"+dv.Kind, fmt.Sprintf("%s: honest machine %d stored a key share for the round", label, i), trace(s))
			}
		}
	})
	r.Add("states", res.States)
	r.Add("transitions", res.Transitions)
	r.Add("refusals_fed_again", refed)
	if V == (D+1)%n && D == 0 {
		r.Sample(map[string]interface{}{"scenario": label, "states": res.States})
	}
}

// initDKGInstance calls (*dkg.DKG).InitDKGInstance with a seed whether the repository's function
// takes the seed itself or a reader made from it (a refactoring of that signature must not stop
// every check that links this file from building).
func initDKGInstance(inst *dkg.DKG, seed []byte) error {
	m := reflect.ValueOf(inst).MethodByName("InitDKGInstance")
	if !m.IsValid() || m.Type().NumIn() != 1 {
		return fmt.Errorf("InitDKGInstance has an unexpected shape")
	}
	var arg reflect.Value
	if m.Type().In(0) == reflect.TypeOf([]byte(nil)) {
		arg = reflect.ValueOf(seed)
	} else if reflect.TypeOf((*frand.RNG)(nil)).AssignableTo(m.Type().In(0)) || reflect.TypeOf((*frand.RNG)(nil)).Implements(m.Type().In(0)) {
		arg = reflect.ValueOf(frand.NewCustom(seed, 32, 20))
	} else {
		return fmt.Errorf("InitDKGInstance takes a %s", m.Type().In(0))
	}
	out := m.Call([]reflect.Value{arg})
	if len(out) == 1 && !out[0].IsNil() {
		return out[0].Interface().(error)
	}
	return nil
}
