package checks

import (
	"encoding/json"
	"fmt"
	"sync"
	"time"

	"github.com/corestario/kyber/pairing"
	"github.com/corestario/kyber/sign/tbls"

	"github.com/lidofinance/dc4bc/client/api/dto"
	sif "github.com/lidofinance/dc4bc/fsm/state_machines/signing_proposal_fsm"
	"github.com/lidofinance/dc4bc/fsm/types/requests"
	"github.com/lidofinance/dc4bc/pkg/utils"

	"verif/mc/oracle"
	"verif/mc/world"
	"verif/mc/worldx"
)

func init() { Registry["C03"] = c03 }

func taskAlphabet() []requests.SigningTask {
	return []requests.SigningTask{
		{MessageID: "t-zero", File: "zero.bin", Payload: []byte{0x00}},
		{MessageID: "t-bin", File: "not utf8 \xff.bin", Payload: []byte{0xff, 0xfe, 0x00, 0x80}},
		{MessageID: "t-root", File: "root", Payload: []byte("0123456789abcdef0123456789abcdef")},
		{MessageID: "t-same-a", File: "file with spaces.txt", Payload: []byte("same payload")},
		{MessageID: "t-same-b", File: "файл-юникод.txt", Payload: []byte("same payload")},
		{MessageID: "t-emptyname", File: "", Payload: []byte("no file name")},
		// identifiers with blanks around them (a file name that begins with a wide blank; a typed one)
		{MessageID: "\u3000t-wide-blank-in-front\u00a0", File: "\u3000blank.txt", Payload: []byte("identifier with unicode blanks around it")},
		{MessageID: " t-ascii-blanks-around\t", File: " x ", Payload: []byte("identifier with ascii blanks around it")},
		{MessageID: "t-emptypayload", File: "empty", Payload: []byte{}},
		{MessageID: "r-empty-end", RangeStart: 18632, RangeEnd: 18632},
		{MessageID: "r-last", RangeStart: 18631, RangeEnd: 18632},
		{MessageID: "r-mid-overlap", RangeStart: 1001, RangeEnd: 1003},
		{MessageID: "r-mid", RangeStart: 1000, RangeEnd: 1002},
		{MessageID: "r-first", RangeStart: 0, RangeEnd: 1},
		{MessageID: "r-empty-0", RangeStart: 0, RangeEnd: 0},
	}
}

func c03(tier string, args []string) int {
	r := newRun("C03", tier, "exploration")
	maxLen := 3
	r.Assume = []string{
		"task alphabet of 13 tasks (explicit payloads incl. binary / duplicate / empty, file names with spaces, unicode, empty; baked ranges incl. empty, first, last, overlapping); every ordered batch of 1.." + fmt.Sprint(maxLen) + " distinct tasks",
		"pipeline on a real (n,t)=(3,2) deployment; the reference expansion is written in the harness (explicit payload = its bytes, baked position = independent consensus-spec signing root)",
	}
	alpha := taskAlphabet()
	var batches [][]requests.SigningTask
	var rec func(cur []int)
	rec = func(cur []int) {
		if len(cur) > 0 {
			var b []requests.SigningTask
			for _, i := range cur {
				b = append(b, alpha[i])
			}
			batches = append(batches, b)
		}
		if len(cur) == maxLen {
			return
		}
		for i := range alpha {
			used := false
			for _, c := range cur {
				if c == i {
					used = true
				}
			}
			if !used {
				rec(append(append([]int{}, cur...), i))
			}
		}
	}
	rec(nil)
	// second pass, in the same process and on the same nodes and machines: the same tasks with
	// their identifiers rotated among the tasks of the same kind, alone and in pairs - what an
	// identifier was expanded to in an earlier batch must not matter for a later one
	var ranges, plains []int
	for i, t := range alpha {
		if t.Payload == nil {
			ranges = append(ranges, i)
		} else {
			plains = append(plains, i)
		}
	}
	var relabelled []requests.SigningTask
	for _, group := range [][]int{ranges, plains} {
		for gi, i := range group {
			t := alpha[i]
			t.MessageID = alpha[group[(gi+1)%len(group)]].MessageID
			relabelled = append(relabelled, t)
		}
	}
	firstRelabelled := len(batches)
	for i, a := range relabelled {
		batches = append(batches, []requests.SigningTask{a})
		for j, b := range relabelled {
			if i != j && a.MessageID != b.MessageID {
				batches = append(batches, []requests.SigningTask{a, b})
			}
		}
	}
	// batches in which one identifier names two different things: two explicit tasks, and an explicit
	// task named like the entry a baked range expands to (baked entries are named by their
	// validator index). "The payload in the proposal" for that identifier does not exist: such a
	// proposal must be refused by every participant alike, before anything is signed.
	firstAmbiguous := len(batches)
	if ref0, err := RefExpand([]requests.SigningTask{{MessageID: "r", RangeStart: 0, RangeEnd: 1}}); err == nil && len(ref0) == 1 {
		batches = append(batches,
			[]requests.SigningTask{{MessageID: "twice", File: "a", Payload: []byte("first payload")}, {MessageID: "twice", File: "b", Payload: []byte("second payload")}},
			[]requests.SigningTask{{MessageID: ref0[0].ID, File: "explicit", Payload: []byte("explicit payload under a validator's index")}, {MessageID: "r-first", RangeStart: 0, RangeEnd: 1}},
			[]requests.SigningTask{{MessageID: "r-first", RangeStart: 0, RangeEnd: 1}, {MessageID: ref0[0].ID, File: "explicit", Payload: []byte("explicit payload under a validator's index")}},
		)
	}
	// two batches of ONE round that name their messages alike (a corrected file proposed again under
	// its old identifier; overlapping baked ranges): the second is run after the first was
	// completed, on the same stores - what is stored and exported for each batch is that batch's
	chainAfter := map[int]int{}
	firstChained := len(batches)
	{
		first := firstChained
		batches = append(batches,
			[]requests.SigningTask{{MessageID: "report", File: "report.txt", Payload: []byte("first version")}, {MessageID: "annex", File: "annex.txt", Payload: []byte("annex, first version")}},
			[]requests.SigningTask{{MessageID: "report", File: "report.txt", Payload: []byte("second version")}, {MessageID: "annex", File: "annex-2.txt", Payload: []byte("annex, second version")}},
			[]requests.SigningTask{{MessageID: "r", RangeStart: 0, RangeEnd: 3}},
			[]requests.SigningTask{{MessageID: "r2", RangeStart: 1, RangeEnd: 4}, {MessageID: "report", File: "x", Payload: []byte("third version")}},
		)
		chainAfter[first+1] = first
		chainAfter[first+3] = first + 2
	}
	sw := SetupSignWorld(r, 3, 2, worldx.NumWorkers())
	defer sw.Close()

	var mu sync.Mutex
	evals, nontrivial := 0, 0
	ch := make(chan int)
	var wg sync.WaitGroup
	for _, k := range sw.Workers {
		wg.Add(1)
		go func(k *worldx.Worker) {
			defer wg.Done()
			// kyber suites / polynomials are not safe for concurrent use: one per worker
			suite := oracle.Suite()
			krs, _ := k.W.Airs[0].M.GetBLSKeyrings()
			pubPoly := krs[sw.Round].PubPoly
			var runOne func(bi int, start *worldx.State) *worldx.State
			runOne = func(bi int, start *worldx.State) *worldx.State {
				tasks := batches[bi]
				batchID := fmt.Sprintf("c03-batch-%d", bi)
				var ids []string
				for _, t := range tasks {
					ids = append(ids, t.MessageID)
				}
				trace := map[string]interface{}{"batch": bi, "tasks": ids}
				if bi >= firstRelabelled {
					trace["identifiers_rotated"] = "these identifiers named other tasks in earlier batches of this run"
				}
				// The proposal is posted as RAW JSON written by the harness's own types (what an
				// unchanged proposer puts on the board: every field present, a zero-length payload
				// as "" and an absent one as null), and the reference is computed from those same
				// harness values - neither depends on the repository's struct tags.
				type rawTask struct {
					MessageID  string
					File       string
					Payload    []byte
					RangeStart int
					RangeEnd   int
				}
				type rawProposal struct {
					BatchID       string
					ParticipantId int
					CreatedAt     time.Time
					SigningTasks  []rawTask
				}
				rp := rawProposal{BatchID: batchID, ParticipantId: 0, CreatedAt: world.T0}
				for _, t := range tasks {
					rp.SigningTasks = append(rp.SigningTasks, rawTask{t.MessageID, t.File, t.Payload, t.RangeStart, t.RangeEnd})
				}
				rawBz, _ := json.Marshal(rp)
				p0 := k.W.Nodes[0]
				m := world.SignedMessage(sw.Round, string(sif.EventSigningStart), rawBz, p0.Name, p0.KeyPair.Priv, "")
				// file names travel as JSON strings: invalid UTF-8 is replaced when the proposer
				// serialises it, so the reference takes the names back from the posted bytes
				var posted rawProposal
				if err := json.Unmarshal(rawBz, &posted); err != nil {
					r.Infra("proposal does not parse: %v", err)
				}
				var refTasks []requests.SigningTask
				for i, t := range posted.SigningTasks {
					refTasks = append(refTasks, requests.SigningTask{MessageID: t.MessageID, File: t.File, Payload: tasks[i].Payload, RangeStart: t.RangeStart, RangeEnd: t.RangeEnd})
				}
				ref, rerr := RefExpand(refTasks)
				if rerr != nil {
					r.Infra("reference expansion: %v", rerr)
				}
				refByID := map[string]RefMsg{}
				for _, x := range ref {
					refByID[x.ID] = x
				}
				if prev, ok := chainAfter[bi]; ok {
					// a later batch of the same round: the earlier one was completed first
					start = runOne(prev, sw.Init)
					if start == nil {
						r.Infra("the first batch of a chained pair did not complete")
					}
					trace["earlier_batch_of_the_round"] = prev
				}
				s1 := k.PostMsg(start, m, "propose")
				s1, err := k.DrainEager(s1, nil)
				if err != nil {
					r.Infra("drain: %v", err)
				}
				mu.Lock()
				evals++
				mu.Unlock()
				accepted := k.C.Snapshot(s1.Snap[0]).RoundState(sw.Round) == string(sif.StateSigningAwaitPartialSigns)
				if bi >= firstAmbiguous && bi < firstChained {
					for i := 0; i < 3; i++ {
						st := k.C.Snapshot(s1.Snap[i]).RoundState(sw.Round)
						if st == string(sif.StateSigningAwaitPartialSigns) || len(k.Pending(s1, i)) > 0 {
							r.Violation("C03/ambiguous-identifier-accepted", fmt.Sprintf("batch %v names two different payloads with one identifier, yet node %d takes it (round state %s, %d operation(s) for the operator)", ids, i, st, len(k.Pending(s1, i))), trace)
							break
						}
					}
					return nil
				}
				if len(ref) == 0 {
					// nothing to sign: whatever the nodes do, nothing may be signed or stored
					for i := 0; i < 3; i++ {
						if len(k.Pending(s1, i)) > 0 && accepted {
							r.Violation("C03/empty-batch-asks-for-signatures", fmt.Sprintf("batch %v expands to no message but node %d asks its operator to sign", ids, i), trace)
						}
					}
					return nil
				}
				if !accepted {
					r.Violation("C03/proposal-refused", fmt.Sprintf("batch %v (%d messages in the reference expansion) was not accepted: node 0 is in %s", ids, len(ref), k.C.Snapshot(s1.Snap[0]).RoundState(sw.Round)), trace)
					return nil
				}
				cur := s1
				var orders [][]string
				for i := 0; i < 3; i++ {
					ops := k.Pending(cur, i)
					if len(ops) != 1 {
						r.Violation("C03/no-signing-operation", fmt.Sprintf("node %d offers %d operations for batch %v", i, len(ops), ids), trace)
						continue
					}
					c, apiErr, err := k.OperateOp(cur, i, ops[0].ID, nil)
					if err != nil || apiErr != nil {
						r.Violation("C03/signer-failed", fmt.Sprintf("participant %d could not answer batch %v: %v %v", i, ids, err, apiErr), trace)
						continue
					}
					// what the machine signed: its partial signatures must verify under the share
					// public key over the REFERENCE bytes, in the reference order
					pm := c.Log[len(c.Log)-1]
					var req requests.SigningProposalBatchPartialSignRequests
					if pm.Event != string(sif.EventSigningPartialSignReceived) || json.Unmarshal(pm.Data, &req) != nil {
						r.Violation("C03/signer-reported-error", fmt.Sprintf("participant %d answered batch %v with %s", i, ids, pm.Event), trace)
						cur = c
						continue
					}
					var order []string
					for _, ps := range req.PartialSigns {
						order = append(order, ps.MessageID)
						rm, ok := refByID[ps.MessageID]
						if !ok {
							r.Violation("C03/signed-unproposed-message", fmt.Sprintf("participant %d signed message id %q which the proposal %v does not contain", i, ps.MessageID, ids), trace)
							continue
						}
						if err := tbls.Verify(suite, pubPoly, rm.Payload, ps.Sign); err != nil {
							r.Violation("C03/signed-different-bytes", fmt.Sprintf("participant %d's partial signature for %q does not verify over the proposed payload: %v", i, ps.MessageID, err), trace)
						}
					}
					orders = append(orders, order)
					cur = c
				}
				// every participant expands to the same ordered list, equal to the reference
				var refOrder []string
				for _, x := range ref {
					refOrder = append(refOrder, x.ID)
				}
				for i, o := range orders {
					if fmt.Sprint(o) != fmt.Sprint(refOrder) {
						r.Violation("C03/expansion-order-differs", fmt.Sprintf("participant %d expanded batch %v to %v, reference %v", i, ids, o, refOrder), trace)
					}
				}
				fin, err := k.DrainEager(cur, nil)
				if err != nil {
					r.Infra("drain: %v", err)
				}
				// stored and exported payloads
				for i := 0; i < 3; i++ {
					st, err := k.NodeAt(fin, i).Sigs.GetSignaturesByBatchID(&dto.SignaturesByBatchIdDTO{BatchID: batchID, DkgID: sw.Round})
					if err != nil {
						r.Violation("C03/store-unreadable", fmt.Sprintf("node %d: %v", i, err), trace)
						continue
					}
					exp, err := utils.PrepareSignaturesToDump(st)
					if err != nil {
						r.Violation("C03/export-failed", fmt.Sprintf("node %d: export of batch %v failed: %v", i, ids, err), trace)
						continue
					}
					for id, rm := range refByID {
						e, ok := (*exp)[id]
						if !ok {
							r.Violation("C03/message-missing-in-export", fmt.Sprintf("node %d: export of batch %v has no entry for %q", i, ids, id), trace)
							continue
						}
						if string(e.Payload) != string(rm.Payload) {
							r.Violation("C03/exported-payload-differs", fmt.Sprintf("node %d: exported payload of %q is %x, proposed %x", i, id, e.Payload, rm.Payload), trace)
						}
						if err := oracle.VerifyETH(sw.GroupKey, rm.Payload, e.Signature); err != nil {
							r.Violation("C03/exported-signature-invalid", fmt.Sprintf("node %d: exported signature of %q does not verify over the proposed payload: %v", i, id, err), trace)
						}
						if e.File != rm.File {
							r.Violation("C03/exported-file-differs", fmt.Sprintf("node %d: exported file name of %q is %q, proposed %q", i, id, e.File, rm.File), trace)
						}
						for _, ent := range st[id] {
							if string(ent.SrcPayload) != string(rm.Payload) {
								r.Violation("C03/stored-payload-differs", fmt.Sprintf("node %d: stored payload of %q (entry by %s) is %x, proposed %x", i, id, ent.Username, ent.SrcPayload, rm.Payload), trace)
							}
						}
					}
					for id := range *exp {
						if _, ok := refByID[id]; !ok {
							r.Violation("C03/unproposed-message-exported", fmt.Sprintf("node %d exports a signature for %q which batch %v does not contain", i, id, ids), trace)
						}
					}
				}
				mu.Lock()
				nontrivial++
				if nontrivial <= 3 {
					r.Sample(map[string]interface{}{"tasks": ids, "reference_messages": refOrder})
				}
				mu.Unlock()
				return fin
			}
			for bi := range ch {
				runOne(bi, sw.Init)
			}
		}(k)
	}
	for bi := range batches {
		if r.TimeUp() {
			break
		}
		ch <- bi
	}
	close(ch)
	wg.Wait()
	r.Set("evaluations", evals)
	r.Set("distinct_nontrivial", nontrivial)
	r.Set("batches_in_alphabet", len(batches))
	r.Set("rule", "every ordered batch of distinct tasks of the alphabet goes through the real pipeline (proposal on the board, store, operation, airgapped signer, partial signatures, reconstruction, signature store, export); non-trivial = batches whose reference expansion is non-empty and that ran to the export")
	var _ pairing.Suite
	return finish(r)
}
