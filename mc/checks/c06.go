package checks

import (
	"encoding/hex"
	"encoding/json"
	"errors"
	"fmt"
	"github.com/lidofinance/dc4bc/client/api/dto"
	"sort"
	"strings"
	"sync"
	"time"

	"github.com/lidofinance/dc4bc/fsm/fsm"
	sif "github.com/lidofinance/dc4bc/fsm/state_machines/signing_proposal_fsm"
	"github.com/lidofinance/dc4bc/fsm/types/requests"
	"github.com/lidofinance/dc4bc/storage"

	"verif/mc/kit"
	"verif/mc/world"
	"verif/mc/worldx"
	"verif/mc/xsearch"
)

func init() { Registry["C06"] = c06 }

// mon06 is the reference model of DESIGN A.3.
type mon06 struct {
	Cur     string // current batch ("" = idle / cancelled)
	Contrib []int  // participants that delivered a contribution made for Cur
	Failed  []int  // participants that reported failure while Cur was current
	Seen    []string
}

func (m *mon06) key() string { b, _ := json.Marshal(m); return string(b) }
func (m *mon06) clone() *mon06 {
	return &mon06{Cur: m.Cur, Contrib: append([]int(nil), m.Contrib...), Failed: append([]int(nil), m.Failed...), Seen: append([]string(nil), m.Seen...)}
}
func has(l []int, x int) bool { return contains(l, x) }

type in06 struct {
	Label string
	Kind  string // proposal | partial | error
	Batch string
	PID   int
	Msg   storage.Message
	// Wire: for a proposal, the batch id it carries on the wire; Batch is the batch's identity in
	// the reference model (two proposals with one id and different tasks are different batches)
	Wire string
}

type st06 struct {
	Snap string
	Mon  *mon06
}

const reconLine = "Collected enough partial signatures"

func c06(tier string, args []string) int {
	r := newRun("C06", tier, "model_checking")
	cfgs := allNT(2, 3)
	cfgs = append(cfgs, ntPair{4, 3})
	if tier == "thorough" {
		cfgs = append(allNT(2, 4), ntPair{5, 3})
	}
	r.Assume = []string{
		"partial signatures are the genuine ones produced by the real airgapped machines for each (participant, batch)",
		"an error report carries no batch id on the wire, so it is attributed to the batch current when it arrives",
		"'randomised longer sequences for n up to 7' of the quantifier are replaced by the fixpoint at n<=4 (5 thorough)",
	}
	totS, totT := 0, 0
	var per []string
	for _, nt := range cfgs {
		if r.TimeUp() {
			break
		}
		s, t, info := explore06(r, nt.n, nt.t, false)
		totS += s
		totT += t
		per = append(per, fmt.Sprintf("n=%d t=%d: states=%d transitions=%d %s", nt.n, nt.t, s, t, info))
		if nt.n == 3 && nt.t == 2 {
			// the same exploration with the key older than the confirmation deadline: the batches
			// are proposed, answered and stamped 8 days after the key generation
			s, t, info = explore06(r, nt.n, nt.t, true)
			totS += s
			totT += t
			per = append(per, fmt.Sprintf("n=%d t=%d [clock +8d]: states=%d transitions=%d %s", nt.n, nt.t, s, t, info))
		}
	}
	r.Set("states", totS)
	r.Set("transitions", totT)
	r.Set("traces_validated_against_impl", totT)
	r.Set("explorations", per)
	r.Set("rule", "BFS to a fixpoint over (node store, reference counters) from the signing-ready state of a real DKG; alphabet: proposals of 3 batch ids by 2 proposers, the genuine partial-signature message of every (participant, batch) (so: current, stale, repeated), an unknown participant, error reports; oracle: reference set of distinct current-batch contributors, reconstruction attempt (log line + broadcast + return to idle) iff the set reaches t, cancellation iff failures exceed n-t, next proposal accepted afterwards")
	return finish(r)
}

func explore06(r *kit.Run, n, t int, agedKey bool) (int, int, string) {
	sw := SetupSignWorld(r, n, t, 1)
	defer sw.Close()
	if agedKey {
		// the key generation happened at T0; everything from here on is 8 days later
		world.SetClock(world.T0.Add(8 * 24 * time.Hour))
		defer world.SetClock(world.T0)
	}
	k := sw.Workers[0]
	round := sw.Round
	batches := []Batch{
		{ID: "batch-1", Tasks: world.SimpleTasks("b1", []byte("first payload"), []byte{0, 1, 2})},
		{ID: "batch-2", Tasks: world.SimpleTasks("b2", []byte("second payload"))},
		{ID: "batch-3", Tasks: []requests.SigningTask{{MessageID: "b3-range", RangeStart: 7, RangeEnd: 9}}},
	}
	proposers := []int{0, n - 1}
	if n >= 4 && (r.Tier == "quick" || n >= 5) {
		batches = batches[:2] // larger n: two batch ids (the fixpoint grows with n * batches)
		proposers = []int{0}
	}
	// Proposal and answers are stamped by different clocks (the proposer's node; each answering
	// node): the second batch is proposed by a node whose clock is an hour ahead of everybody
	// else's, so every answer to it is "older" than the proposal it answers.
	proposal := func(p int, b Batch) storage.Message {
		m := k.W.ProposalMessage(p, round, b.ID, b.Tasks)
		if b.ID != "batch-2" {
			return m
		}
		var req requests.SigningBatchProposalStartRequest
		if err := json.Unmarshal(m.Data, &req); err != nil {
			r.Infra("proposal does not parse: %v", err)
		}
		req.CreatedAt = world.Clock().Add(time.Hour)
		nd := k.W.Nodes[p]
		return world.SignedMessage(round, m.Event, world.MustJSON(req), nd.Name, nd.KeyPair.Priv, "")
	}
	var alphabet []in06
	for _, b := range batches {
		for _, p := range proposers {
			m := proposal(p, b)
			alphabet = append(alphabet, in06{Label: fmt.Sprintf("propose(%s by %d)", b.ID, p), Kind: "proposal", Batch: b.ID, Wire: b.ID, PID: p, Msg: m})
		}
		if b.ID == "batch-1" {
			// the first batch's id on a proposal with OTHER tasks (enabled once the id was used on the
			// path): if a node takes it, the answers made for the first batch are foreign to it
			other := Batch{ID: b.ID, Tasks: world.SimpleTasks("b1", []byte("another payload under the first batch's id"), []byte{9, 9})}
			alphabet = append(alphabet, in06{Label: fmt.Sprintf("propose(%s with other tasks by %d)", b.ID, proposers[0]), Kind: "proposal", Batch: b.ID + "#other-tasks", Wire: b.ID, PID: proposers[0], Msg: proposal(proposers[0], other)})
		}
		// genuine answers of every participant to this batch, produced by the real machines
		s1 := k.PostMsg(sw.Init, proposal(0, b), "setup")
		s1, err := k.DrainEager(s1, nil)
		if err != nil {
			r.Infra("setup drain: %v", err)
		}
		for p := 0; p < n; p++ {
			ops := k.Pending(s1, p)
			if len(ops) != 1 {
				r.Infra("expected one pending signing operation on node %d, have %d", p, len(ops))
			}
			c, apiErr, err := k.OperateOp(s1, p, ops[0].ID, nil)
			if err != nil || apiErr != nil {
				r.Infra("producing the partial signature of %d for %s: %v %v", p, b.ID, err, apiErr)
			}
			m := c.Log[len(c.Log)-1]
			if m.Event != string(sif.EventSigningPartialSignReceived) {
				r.Infra("machine %d answered %s with %s", p, b.ID, m.Event)
			}
			alphabet = append(alphabet, in06{Label: fmt.Sprintf("partial(%d for %s)", p, b.ID), Kind: "partial", Batch: b.ID, PID: p, Msg: m})
			if p == 0 {
				// the same contribution claimed by an unknown participant id
				var req requests.SigningProposalBatchPartialSignRequests
				_ = json.Unmarshal(m.Data, &req)
				req.ParticipantId = n
				um := world.SignedMessage(round, m.Event, world.MustJSON(req), k.W.Nodes[0].Name, k.W.Nodes[0].KeyPair.Priv, "")
				alphabet = append(alphabet, in06{Label: fmt.Sprintf("partial(unknown id %d for %s)", n, b.ID), Kind: "partial", Batch: b.ID, PID: n, Msg: um})
			}
		}
	}
	for p := 0; p <= n; p++ {
		s := p
		if s >= n {
			s = 0
		}
		req := requests.SignatureProposalConfirmationErrorRequest{ParticipantId: p, Error: requests.NewFSMError(errors.New("signing failed")), CreatedAt: vtimeNow()}
		m := world.SignedMessage(round, string(sif.EventSigningPartialSignError), world.MustJSON(req), k.W.Nodes[s].Name, k.W.Nodes[s].KeyPair.Priv, "")
		alphabet = append(alphabet, in06{Label: fmt.Sprintf("error(%d)", p), Kind: "error", PID: p, Msg: m})
	}

	workers := 16
	labs := make([]*Lab, workers)
	for i := range labs {
		l, err := NewLabFor(k.W, 0)
		if err != nil {
			r.Infra("lab: %v", err)
		}
		labs[i] = l
	}
	store := newSnapStore()
	init := &xsearch.St{Data: &st06{Snap: store.put(k.C.Snapshot(sw.Init.Snap[0])), Mon: &mon06{}}}
	init.Key = init.Data.(*st06).Snap + init.Data.(*st06).Mon.key()
	var mu sync.Mutex
	attempts, cancels, sampled := 0, 0, 0
	outcomes := map[string]int{}

	roundBytes, _ := hex.DecodeString(round)
	next := func(w int, s *xsearch.St) ([]*xsearch.St, error) {
		lab := labs[w]
		cur := s.Data.(*st06)
		snap := store.get(cur.Snap)
		var out []*xsearch.St
		for _, in := range alphabet {
			if in.Kind == "proposal" && in.Wire != in.Batch && !containsStr(cur.Mon.Seen, in.Wire) {
				continue // (answers to a batch that was never proposed would be a Byzantine participant's)
			}
			err, after, appended, logs := lab.StepL(snap, in.Msg)
			trace := func() interface{} { return append(s.Trace(), in.Label) }
			flagged := false
			viol := func(key, what string) { flagged = true; r.Violation(key, what, trace()) }
			dB, dA := snap.Dump(round), after.Dump(round)
			if dB == nil || dA == nil {
				return nil, fmt.Errorf("round dump unreadable")
			}
			attempted := false
			for _, l := range logs {
				if strings.Contains(l, reconLine) {
					attempted = true
				}
			}
			broadcast := 0
			for _, a := range appended {
				if a.Event == "signature_reconstructed" {
					broadcast++
				}
			}
			mon := cur.Mon.clone()
			idleLike := func(st fsm.State) bool {
				return st == sif.StateSigningIdle || st == sif.StateSigningPartialSignsAwaitCancelledByError || st == sif.StateSigningPartialSignsAwaitCancelledByTimeout
			}
			// FSM part of the store before/after, modulo the lazy restart out of a cancelled state
			roundChanged := string(snap.Rounds()[round]) != string(after.Rounds()[round])
			if roundChanged && idleLike(dB.State) && dB.State != sif.StateSigningIdle && dA.State == sif.StateSigningIdle {
				x := *dB
				x.State = sif.StateSigningIdle
				bz, _ := json.Marshal(&x)
				if string(bz) == string(after.Rounds()[round]) {
					roundChanged = false // only the (intended) automatic restart happened
				}
			}
			outKey := fmt.Sprintf("%s|%s|err=%v|changed=%v|attempt=%v", dB.State, in.Kind, err != nil, roundChanged, attempted)
			mu.Lock()
			outcomes[outKey]++
			mu.Unlock()
			expectAttempt := false
			switch in.Kind {
			case "proposal":
				accepted := dA.State == sif.StateSigningAwaitPartialSigns && dA.Payload.SigningProposalPayload != nil && dA.Payload.SigningProposalPayload.BatchID == in.Wire
				if mon.Cur == "" && containsStr(mon.Seen, in.Wire) && !accepted {
					// a batch id that was proposed before on this path (its operation may still be in
					// this node's pool): "the next proposal" of the statement is a new batch; whether
					// a repeated one is taken again is left open - but a refusal must change nothing
					if roundChanged {
						viol("C06/refused-repeated-proposal-changed-round", fmt.Sprintf("the repeated proposal %s was refused (%v) but changed the round: now %s", in.Label, err, dA.State))
					}
				} else if mon.Cur == "" {
					// the round is idle (or cancelled, which must behave like idle): the next
					// proposal must be accepted
					if !accepted {
						viol("C06/next-proposal-not-accepted", fmt.Sprintf("after the previous batch ended (%s) the proposal %s was not accepted: err=%v state=%s", dB.State, in.Label, err, dA.State))
					} else {
						mon.Cur, mon.Contrib, mon.Failed = in.Batch, nil, nil
						if !containsStr(mon.Seen, in.Wire) {
							mon.Seen = append(mon.Seen, in.Wire)
							sort.Strings(mon.Seen)
						}
					}
				} else if roundChanged {
					viol("C06/proposal-changed-running-batch", fmt.Sprintf("while batch %s is collecting, %s changed the round", mon.Cur, in.Label))
				}
			case "partial":
				counts := mon.Cur != "" && in.Batch == mon.Cur && in.PID >= 0 && in.PID < n && !has(mon.Contrib, in.PID) && !has(mon.Failed, in.PID)
				if !counts {
					if roundChanged || attempted {
						why := "repeated"
						switch {
						case mon.Cur == "":
							why = "no-batch-running"
						case in.Batch != mon.Cur:
							why = "stale-batch"
						case in.PID >= n:
							why = "unknown-participant"
						case has(mon.Failed, in.PID):
							why = "after-own-error-report"
						}
						viol("C06/counted-foreign-contribution/"+why, fmt.Sprintf("%s must not count (current batch %q, contributors %v, failed %v) but it changed the round (attempted reconstruction: %v, error: %v)", in.Label, mon.Cur, mon.Contrib, mon.Failed, attempted, err))
					}
				} else {
					mon.Contrib = append(mon.Contrib, in.PID)
					sort.Ints(mon.Contrib)
					expectAttempt = len(mon.Contrib) == t
					if !expectAttempt && len(mon.Contrib) < t && err != nil {
						viol("C06/valid-contribution-refused", fmt.Sprintf("%s is a distinct contribution to the current batch %s but was refused: %v", in.Label, mon.Cur, err))
					}
				}
			case "error":
				if mon.Cur != "" && in.PID >= 0 && in.PID < n && !has(mon.Contrib, in.PID) && !has(mon.Failed, in.PID) {
					mon.Failed = append(mon.Failed, in.PID)
					sort.Ints(mon.Failed)
					if len(mon.Failed) > n-t {
						// batch must be cancelled; the round then behaves like idle
						if dA.State == sif.StateSigningAwaitPartialSigns {
							viol("C06/not-cancelled-after-too-many-failures", fmt.Sprintf("%d participants reported failure (n-t=%d) but the batch %s is still collecting", len(mon.Failed), n-t, mon.Cur))
						}
						mon.Cur, mon.Contrib, mon.Failed = "", nil, nil
						mu.Lock()
						cancels++
						mu.Unlock()
					} else if !idleLike(dA.State) && dA.State != sif.StateSigningAwaitPartialSigns {
						viol("C06/unexpected-state-after-error", fmt.Sprintf("state %s after %s", dA.State, in.Label))
					} else if dA.State != sif.StateSigningAwaitPartialSigns {
						viol("C06/cancelled-with-too-few-failures", fmt.Sprintf("%d failure reports (n-t=%d) cancelled batch %s", len(mon.Failed), n-t, mon.Cur))
					}
				} else if roundChanged {
					viol("C06/error-report-without-effect-expected", fmt.Sprintf("%s (current %q contributors %v failed %v) changed the round", in.Label, mon.Cur, mon.Contrib, mon.Failed))
				}
			}
			if in.Kind != "partial" || !expectAttempt {
				if attempted {
					viol("C06/spurious-reconstruction", fmt.Sprintf("reconstruction was attempted on %s with reference contributors %v of %d (current %q)", in.Label, mon.Contrib, t, mon.Cur))
				}
			} else {
				mu.Lock()
				attempts++
				mu.Unlock()
				if !attempted {
					viol("C06/missing-reconstruction", fmt.Sprintf("%s is the %d-th distinct contribution to batch %s but no reconstruction was attempted (err=%v)", in.Label, t, mon.Cur, err))
				} else if err != nil || broadcast != 1 {
					viol("C06/reconstruction-failed-on-genuine-contributions", fmt.Sprintf("reconstruction of batch %s at its %d-th genuine contribution failed: err=%v broadcasts=%d", mon.Cur, t, err, broadcast))
				} else if dA.State != sif.StateSigningIdle {
					viol("C06/not-idle-after-reconstruction", fmt.Sprintf("state %s after reconstructing batch %s", dA.State, mon.Cur))
				}
				mon.Cur, mon.Contrib, mon.Failed = "", nil, nil
				mu.Lock()
				if sampled < 3 {
					sampled++
					r.Sample(map[string]interface{}{"n": n, "t": t, "trace_to_reconstruction": append(s.Trace(), in.Label)})
				}
				mu.Unlock()
			}
			if flagged {
				continue // reference and implementation diverged: successors would only repeat it
			}
			if after.Equal(snap) && mon.key() == cur.Mon.key() {
				out = append(out, &xsearch.St{Key: s.Key, Data: cur, Via: in.Label})
				continue
			}
			// "... the round returns to idle and accepts the next proposal": when no batch is running
			// the node's own API must let its operator propose one (a proposal comes from somewhere)
			if mon.Cur == "" && idleLike(dA.State) {
				probe := &dto.ProposeSignBatchMessagesDTO{DkgID: roundBytes, Data: map[string][]byte{"api-probe": []byte("x")}}
				lab.Node.Mem.Restore(after)
				lab.Board.SetLog(nil)
				if perr := lab.Node.Svc.ProposeSignMessages(probe); perr != nil {
					viol("C06/proposal-api-refuses-when-no-batch-runs/"+string(dA.State), fmt.Sprintf("no batch is running (round state %s) but the node's proposal API refuses: %v", dA.State, perr))
					continue
				}
			}
			c := &st06{Snap: store.put(after), Mon: mon}
			out = append(out, &xsearch.St{Key: c.Snap + mon.key(), Data: c, Via: in.Label})
		}
		return out, nil
	}
	res, err := xsearch.BFS(init, xsearch.Opts{Workers: workers, Stop: func() bool { return r.TimeUp() || r.NumViolations() > 20 }}, next)
	if err != nil {
		r.Infra("exploration n=%d t=%d: %v", n, t, err)
	}
	if res.Stopped || res.Capped {
		r.Cap(fmt.Sprintf("n=%d t=%d stopped early", n, t))
	}
	for _, l := range labs {
		l.Node.Stop()
	}
	r.Add("reconstruction_points", attempts)
	r.Add("cancellation_points", cancels)
	r.Add("distinct_outcome_classes", len(outcomes))
	_ = worldx.Poll
	return res.States, res.Transitions, fmt.Sprintf("reconstructions=%d cancellations=%d alphabet=%d", attempts, cancels, len(alphabet))
}

func containsStr(l []string, x string) bool {
	for _, y := range l {
		if y == x {
			return true
		}
	}
	return false
}

func vtimeNow() time.Time { return world.Clock() }
