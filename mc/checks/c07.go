package checks

import (
	"bytes"
	"encoding/json"
	"fmt"
	"strings"
	"time"

	sif "github.com/lidofinance/dc4bc/fsm/state_machines/signing_proposal_fsm"
	"github.com/lidofinance/dc4bc/fsm/types/requests"
	"github.com/lidofinance/dc4bc/storage"

	"verif/mc/kit"
	"verif/mc/world"
	"verif/mc/worldx"
)

func init() { Registry["C07"] = c07 }

// answersIn counts, per batch, the distinct participants whose partial-signature message is in
// the log prefix.
func answersIn(s *worldx.State) map[string]map[int]bool {
	out := map[string]map[int]bool{}
	for _, m := range s.Log {
		if m.Event != string(sif.EventSigningPartialSignReceived) {
			continue
		}
		var req requests.SigningProposalBatchPartialSignRequests
		if json.Unmarshal(m.Data, &req) != nil {
			continue
		}
		if out[req.BatchID] == nil {
			out[req.BatchID] = map[int]bool{}
		}
		out[req.BatchID][req.ParticipantId] = true
	}
	return out
}

// lineLimitBatch names the batch of one file whose size is the largest a proposal can carry.
const lineLimitBatch = "batch-one-payload-at-the-line-limit"

// largestProposablePayload finds, in steps of 24 bytes, the largest single payload whose proposal
// still fits into one board line (the board's 1 MiB limit; id and offset are assigned on append).
func largestProposablePayload() []byte {
	for size := 600000; size > 500000; size -= 24 {
		pl := bytes.Repeat([]byte{'z'}, size)
		req := requests.SigningBatchProposalStartRequest{BatchID: lineLimitBatch, ParticipantId: 0, CreatedAt: world.T0, SigningTasks: []requests.SigningTask{{MessageID: "limit-msg", File: "limit-file", Payload: pl}}}
		m := storage.Message{DkgRoundID: strings.Repeat("0", 64), Event: "event_signing_start", Data: world.MustJSON(req), Signature: make([]byte, 64), SenderAddr: world.NodeName(0)}
		if len(world.MustJSON(m))+64 <= world.MaxBoardLine {
			return pl
		}
	}
	return nil
}

// livenessCheck is the C07 invariant, evaluated on every state.
func livenessCheck(r *kit.Run, sw *SignWorld, o *sigOracle, cfg SignCfg, k *worldx.Worker, s *worldx.State) {
	ans := answersIn(s)
	for j := range s.Snap {
		sn := k.C.Snapshot(s.Snap[j])
		if int(worldx.OffsetOf(sn)) != len(s.Log) {
			continue // the node has not consumed the whole board yet
		}
		st := sn.Signatures(sw.Round)
		for _, b := range cfg.Batches {
			if len(ans[b.ID]) < sw.T {
				continue
			}
			for id, ref := range o.refs[b.ID] {
				ok := false
				for _, e := range st[b.ID][id] {
					if len(e.Signature) > 0 && o.verify(ref.Payload, e.Signature) == nil {
						ok = true
					}
				}
				if !ok {
					key := "C07/batch-not-reconstructed"
					if b.ID == lineLimitBatch {
						key += "/one-payload-at-the-line-limit"
					}
					r.Violation(key, fmt.Sprintf("%s: node %d consumed the whole board, batch %s has %d correct answers on it (t=%d), but the node holds no valid signature for message %s (round state %s)", cfg, j, b.ID, len(ans[b.ID]), sw.T, id, sn.RoundState(sw.Round)), s.Trace())
					return
				}
			}
		}
	}
}

func terminalCheck(r *kit.Run, sw *SignWorld, cfg SignCfg, k *worldx.Worker, s *worldx.State) {
	for j := range s.Snap {
		sn := k.C.Snapshot(s.Snap[j])
		if st := sn.RoundState(sw.Round); st != string(sif.StateSigningIdle) {
			// with fewer than t answers possible (silent participants) a batch legitimately stays open
			ans := answersIn(s)
			open := false
			for _, b := range cfg.Batches {
				if n := len(ans[b.ID]); n > 0 && n < sw.T {
					open = true
				}
			}
			if !open {
				key := "C07/not-idle-at-quiescence"
				if len(cfg.Batches) == 1 && cfg.Batches[0].ID == lineLimitBatch {
					key += "/one-payload-at-the-line-limit"
				}
				r.Violation(key, fmt.Sprintf("%s: at quiescence node %d is in %s", cfg, j, st), s.Trace())
				return
			}
		}
	}
}

// failingCfgs: every single participant reports a signing error (within the n-t tolerance) while
// the others answer correctly: the batch must still be reconstructed.
func failingCfgs(n, t int, batches []Batch) []SignCfg {
	var out []SignCfg
	for f := 0; f < n; f++ {
		out = append(out, SignCfg{N: n, T: t, Batches: batches, Proposers: []int{0}, Failing: []int{f}, MaxStates: 1500000})
	}
	return out
}

// failingFirstCfgs: one participant reports an error for the first batch (the others sign it) and
// answers the second batch correctly; its report may arrive at any time, also after the second
// batch was proposed - "answers of slow participants to an already finished batch do not prevent
// the signing of later batches".
func failingFirstCfgs(n, t int, batches []Batch) []SignCfg {
	var out []SignCfg
	for f := 0; f < n; f++ {
		out = append(out, SignCfg{N: n, T: t, Batches: batches, Proposers: []int{0}, FailingFirst: []int{f}, MaxStates: 1500000})
	}
	return out
}

func c07(tier string, args []string) int {
	r := newRun("C07", tier, "model_checking")
	r.Assume = []string{
		"liveness is decided as safety at every state in which a node has drained the board (the system is terminating: every action consumes a finite resource)",
		"answers are the genuine ones of the real machines; participants may be arbitrarily slow or silent",
		"'aged key' runs repeat the exploration with the clock 8 days after the key generation",
	}
	type job struct {
		n, t int
		cfgs []SignCfg
		aged bool
	}
	b1 := Batch{ID: "batch-1", Tasks: world.SimpleTasks("b1", []byte("payload one"), []byte{9, 9})}
	b2 := Batch{ID: "batch-2", Tasks: world.SimpleTasks("b2", []byte("payload two"))}
	b3 := Batch{ID: "batch-3", Tasks: []requests.SigningTask{{MessageID: "b3r", RangeStart: 10, RangeEnd: 12}}}
	two := []Batch{b1, b2}
	var jobs []job
	mk := func(n, t int, batches []Batch, lags [][]int, silents [][]int) []SignCfg {
		var out []SignCfg
		for _, lag := range lags {
			for _, sil := range silents {
				out = append(out, SignCfg{N: n, T: t, Batches: batches, Proposers: []int{0}, Lag: lag, Silent: sil, MaxStates: 1500000})
			}
		}
		return out
	}
	none := [][]int{nil}
	jobs = append(jobs,
		job{n: 2, t: 2, cfgs: mk(2, 2, two, [][]int{nil, {0}, {1}, {0, 1}}, none)},
		job{n: 3, t: 2, cfgs: append(mk(3, 2, two, [][]int{nil, {0}, {1}, {2}}, none), mk(3, 2, two, [][]int{nil}, [][]int{{0}, {1}, {2}})...)},
		job{n: 3, t: 3, cfgs: mk(3, 3, two, [][]int{nil, {1}}, none)},
		job{n: 3, t: 2, cfgs: failingCfgs(3, 2, two)},
		job{n: 3, t: 2, cfgs: failingFirstCfgs(3, 2, two)},
		job{n: 3, t: 2, cfgs: mk(3, 2, two, [][]int{nil, {2}}, none), aged: true},
	)
	// a batch whose proposal and answers fit on the board while the broadcast of the reconstructed
	// signatures (which repeats every payload) does not fit into one board line
	var bigTasks []requests.SigningTask
	for i := 0; i < 96; i++ {
		pl := bytes.Repeat([]byte{byte('a' + i%26)}, 5950)
		bigTasks = append(bigTasks, requests.SigningTask{MessageID: fmt.Sprintf("big-%02d", i), File: fmt.Sprintf("file-%02d", i), Payload: pl})
	}
	jobs = append(jobs, job{n: 3, t: 2, cfgs: mk(3, 2, []Batch{{ID: "batch-big", Tasks: bigTasks}, b2}, [][]int{nil}, none)})
	// ... and one whose file names grow sixfold when JSON-escaped
	var escTasks []requests.SigningTask
	for i := 0; i < 125; i++ {
		escTasks = append(escTasks, requests.SigningTask{MessageID: fmt.Sprintf("esc-%02d", i), File: strings.Repeat("&", 1000) + fmt.Sprint(i), Payload: []byte(fmt.Sprintf("payload %d", i))})
	}
	jobs = append(jobs, job{n: 3, t: 2, cfgs: mk(3, 2, []Batch{{ID: "batch-escaped-names", Tasks: escTasks}}, [][]int{nil}, none)})
	// every node lags (a poll consumes the node's whole backlog), and the proposer - whose operator
	// never answers - may propose the second batch before it has seen anything of the first: the reconstruction broadcasts of batch 1 can all
	// land behind the proposal of batch 2
	{
		one := []Batch{{ID: "batch-a", Tasks: world.SimpleTasks("ba", []byte("payload a"))}, {ID: "batch-b", Tasks: world.SimpleTasks("bb", []byte("payload b"))}}
		jobs = append(jobs, job{n: 3, t: 2, cfgs: []SignCfg{{N: 3, T: 2, Batches: one, Proposers: []int{2}, Silent: []int{2}, Lag: []int{0, 1, 2}, LagWhole: true, MaxStates: 400000}}})
	}
	// the proposer's clock is an hour ahead of everybody else's (two batches, every order of answers)
	{
		two := []Batch{{ID: "batch-a", Tasks: world.SimpleTasks("ca", []byte("payload a"))}, {ID: "batch-b", Tasks: world.SimpleTasks("cb", []byte("payload b"))}}
		jobs = append(jobs, job{n: 3, t: 2, cfgs: []SignCfg{{N: 3, T: 2, Batches: two, Proposers: []int{0}, ProposerAhead: time.Hour, MaxStates: 400000}}})
	}
	// ... and one file of the largest size a proposal can carry (the reconstruction broadcast
	// repeats the payload in a slightly longer envelope)
	if pl := largestProposablePayload(); pl != nil {
		jobs = append(jobs, job{n: 2, t: 2, cfgs: mk(2, 2, []Batch{{ID: lineLimitBatch, Tasks: []requests.SigningTask{{MessageID: "limit-msg", File: "limit-file", Payload: pl}}}}, [][]int{nil}, none)})
	}
	if tier == "thorough" {
		jobs = append(jobs,
			job{n: 3, t: 2, cfgs: mk(3, 2, []Batch{b1, b2, b3}, [][]int{nil}, none)},
			job{n: 3, t: 2, cfgs: mk(3, 2, two, [][]int{{0, 1}, {1, 2}, {0, 2}}, none)},
			job{n: 3, t: 3, cfgs: mk(3, 3, two, [][]int{{0}, {2}}, none)},
			job{n: 4, t: 2, cfgs: mk(4, 2, two, [][]int{nil, {3}}, none)},
			job{n: 4, t: 3, cfgs: mk(4, 3, two, [][]int{nil, {0}}, none)},
			job{n: 4, t: 4, cfgs: mk(4, 4, two, [][]int{nil}, none)},
			job{n: 4, t: 3, cfgs: mk(4, 3, two, [][]int{nil}, none), aged: true},
		)
	} else {
		jobs = append(jobs, job{n: 4, t: 3, cfgs: mk(4, 3, two, [][]int{nil}, none)})
	}
	totS, totT, totTerm := 0, 0, 0
	var per []string
	for _, jb := range jobs {
		if r.TimeUp() {
			break
		}
		sw := SetupSignWorld(r, jb.n, jb.t, worldx.NumWorkers())
		if jb.aged {
			world.SetClock(world.T0.Add(8 * 24 * time.Hour))
		}
		for _, cfg := range jb.cfgs {
			if r.TimeUp() {
				break
			}
			o := newSigOracle(r, "C07", sw.GroupKey, sw.Round, cfg.Batches)
			cfg := cfg
			check := func(k *worldx.Worker, s *worldx.State) error {
				o.CheckState(k, s)
				livenessCheck(r, sw, o, cfg, k, s)
				return nil
			}
			m := sw.Model(cfg, check, r.TimeUp)
			res, err := worldx.BFS(sw.Workers, sw.Init, m, true)
			if err != nil {
				world.SetClock(world.T0)
				r.Infra("exploration %s: %v", cfg, err)
			}
			for _, term := range res.Terminals {
				terminalCheck(r, sw, cfg, sw.Workers[0], term)
			}
			if len(res.Terminals) > 0 {
				r.Sample(map[string]interface{}{"config": cfg.String(), "aged_key": jb.aged, "one_complete_trace": res.Terminals[0].Trace()})
			}
			totS += res.States
			totT += res.Transitions
			totTerm += res.Terminal
			tag := ""
			if jb.aged {
				tag = " [clock +8d]"
			}
			per = append(per, fmt.Sprintf("%s%s: states=%d transitions=%d terminal=%d", cfg, tag, res.States, res.Transitions, res.Terminal))
			if res.Stopped || res.Capped {
				r.Cap("exploration " + cfg.String() + " stopped early")
			}
		}
		world.SetClock(world.T0)
		r.Add("real_poll_ticks", int(sw.Ctx.RealPolls))
		r.Add("cached_poll_ticks", int(sw.Ctx.CachedPolls))
		sw.Close()
	}
	r.Set("states", totS)
	r.Set("transitions", totT)
	r.Set("traces_validated_against_impl", totTerm)
	r.Set("explorations", per)
	r.Set("rule", "explicit-state BFS over world states of the signing phase: proposals (2-3 batches), every pending answer in any order and arbitrarily late or never (silent sets), explicit polls of lagging nodes, eager polls of the others; invariant on every state: a node that consumed the whole board holds a blst-valid signature for every message of every batch with >= t answers on the board; terminal states: every node idle")
	return finish(r)
}
