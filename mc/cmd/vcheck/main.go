package main

import (
	"fmt"
	"os"

	"verif/mc/checks"
	"verif/mc/kit"
	"verif/mc/world"
)

func main() {
	if len(os.Args) < 2 {
		fmt.Fprintln(os.Stderr, "usage: vcheck <id> quick|thorough [--replay file]")
		os.Exit(kit.ExitInfra)
	}
	id := os.Args[1]
	tier := "quick"
	if len(os.Args) > 2 {
		tier = os.Args[2]
	}
	world.SilenceStdout()
	defer world.Cleanup()
	f, ok := checks.Registry[id]
	if !ok {
		fmt.Fprintf(world.RealStdout, "unknown check %q\n", id)
		world.Cleanup()
		os.Exit(kit.ExitInfra)
	}
	code := f(tier, os.Args[3:])
	world.Cleanup()
	os.Exit(code)
}
