package main

import (
	"bytes"
	"fmt"
	"os"
	"os/exec"
	"path/filepath"
	"strings"
	"syscall"

	"verif/mc/checks"
	"verif/mc/kit"
	"verif/mc/world"
)

func main() {
	if len(os.Args) < 2 {
		fmt.Fprintln(os.Stderr, "usage: vcheck <id> quick|thorough [--replay file]")
		os.Exit(kit.ExitInfra)
	}
	id := os.Args[1]
	if id == "c16-child" { // a writer / reader process of C16's process scenarios
		os.Exit(checks.C16ChildMain())
	}
	if id == "c16-histories" && len(os.Args) > 2 { // C16's history search in a process of its own
		os.Exit(checks.C16HistoriesChild(os.Args[2], os.Stdout))
	}
	if id == "c17-boundary" && len(os.Args) > 2 { // a fresh process asking the boundary indices (C17)
		os.Exit(checks.C17BoundaryChild(os.Args[2], os.Stdout))
	}
	tier := "quick"
	if len(os.Args) > 2 {
		tier = os.Args[2]
	}
	if supervised[id] && os.Getenv("VERIF_SUPERVISED") == "" {
		os.Exit(supervise(id, tier))
	}
	if os.Getenv("VERIF_SUPERVISED") != "" {
		// a runaway allocation must end this process quickly instead of eating the machine
		lim := uint64(40) << 30
		_ = syscall.Setrlimit(syscall.RLIMIT_AS, &syscall.Rlimit{Cur: lim, Max: lim})
	}
	world.SilenceStdout()
	defer world.Cleanup()
	f, ok := checks.Registry[id]
	if !ok {
		fmt.Fprintf(world.RealStdout, "unknown check %q\n", id)
		world.Cleanup()
		os.Exit(kit.ExitInfra)
	}
	code := f(tier, os.Args[3:])
	world.Cleanup()
	os.Exit(code)
}

// supervised: properties that forbid a process-terminating fault outright.
var supervised = map[string]bool{"C17": true, "C18": true}

func supervise(id, tier string) int {
	dir, err := os.MkdirTemp("/dev/shm", "verif-sup-")
	if err != nil {
		dir = os.TempDir()
	}
	defer os.RemoveAll(dir)
	mark := filepath.Join(dir, "mark")
	cmd := exec.Command(os.Args[0], os.Args[1:]...)
	cmd.Env = append(os.Environ(), "VERIF_SUPERVISED=1", "VERIF_MARK_FILE="+mark)
	cmd.Stdout = os.Stdout
	var errBuf bytes.Buffer
	cmd.Stderr = &errBuf
	err = cmd.Run()
	code := 0
	if err != nil {
		code = -1
		if ee, ok := err.(*exec.ExitError); ok {
			code = ee.ExitCode()
		}
	}
	if code == kit.ExitOK || code == kit.ExitViolation || code == kit.ExitInfra {
		os.Stderr.Write(errBuf.Bytes())
		return code
	}
	// only a fault that the Go runtime itself reports counts against the code under test; a child
	// that was killed from outside (the kernel's or the sandbox's memory limit, a timeout) says
	// nothing about the property
	if se := errBuf.String(); !strings.Contains(se, "fatal error:") && !strings.Contains(se, "panic:") {
		os.Stderr.Write(errBuf.Bytes())
		fmt.Fprintf(os.Stderr, "INFRA: the supervised run of %s ended with exit code %d without a runtime fault report\n", id, code)
		return kit.ExitInfra
	}
	last, _ := os.ReadFile(mark)
	lines := strings.Split(errBuf.String(), "\n")
	head := lines
	if len(head) > 12 {
		head = head[:12]
	}
	level := "exploration"
	return kit.ReportFatal(id, tier, level, string(last), strings.Join(head, "\n"), os.Stdout)
}
