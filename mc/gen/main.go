// gen builds the `go build -overlay` description that binds the verification harness to the
// CURRENT working tree of the repository: it rewrites selected imports of selected packages to
// shim packages, adds the shim packages as virtual directories under <repo>/verifshim and adds
// accessor files to a few packages.  Nothing is ever written below <repo>.
//
// usage: gen -repo /repo -verif /verif -out /verif/.build/ov
// exit status 3 = infrastructure problem (pattern not found), never 1.
package main

import (
	"encoding/json"
	"flag"
	"fmt"
	"go/parser"
	"go/token"
	"os"
	"path/filepath"
	"sort"
	"strconv"
	"strings"
)

const modPath = "github.com/lidofinance/dc4bc"

type rewrite struct {
	dir     string            // package directory relative to repo
	imports map[string]string // import path -> shim package name (under verifshim/)
	must    []string          // import paths that must be found at least once in the package
}

var rewrites = []rewrite{
	{dir: "client/services/node", imports: map[string]string{"time": "vtime", "sync": "vsync"}, must: []string{"time", "sync"}},
	{dir: "client/types", imports: map[string]string{"time": "vtime"}, must: []string{"time"}},
	{dir: "client/services/fsmservice", imports: map[string]string{"sync": "vsync"}},
	{dir: "client/repositories/operation", imports: map[string]string{"sync": "vsync"}},
	{dir: "client/repositories/signature", imports: map[string]string{"sync": "vsync"}},
	{dir: "client/services/operation", imports: map[string]string{"sync": "vsync"}},
	{dir: "client/services/signature", imports: map[string]string{"sync": "vsync"}},
	{dir: "client/modules/state", imports: map[string]string{"sync": "vsync", "time": "vtime", "github.com/syndtr/goleveldb/leveldb": "vleveldb"}, must: []string{"sync", "github.com/syndtr/goleveldb/leveldb"}},
	{dir: "airgapped", imports: map[string]string{"github.com/syndtr/goleveldb/leveldb": "vleveldb"}, must: []string{"github.com/syndtr/goleveldb/leveldb"}},
	{dir: "storage/file_storage", imports: map[string]string{"os": "vos", "github.com/juju/fslock": "vfslock", "sync": "vsync"}, must: []string{"os", "github.com/juju/fslock"}},
}

// accessor files added to existing packages: package dir -> file in <verif>/shim/accessors
var accessors = map[string]string{
	"airgapped":            "airgapped_zz_verif.go",
	"dkg":                  "dkg_zz_verif.go",
	"client/modules/state": "state_zz_verif.go",
}

var shimPkgs = []string{"vtime", "vsync", "vsched", "vleveldb", "vos", "vfslock"}

func fail(format string, a ...interface{}) {
	fmt.Fprintf(os.Stderr, "gen: "+format+"\n", a...)
	os.Exit(3)
}

func main() {
	repo := flag.String("repo", "/repo", "repository root")
	verif := flag.String("verif", "/verif", "verification root")
	out := flag.String("out", "", "directory for rewritten files and overlay.json")
	flag.Parse()
	if *out == "" {
		fail("-out required")
	}
	if err := os.RemoveAll(*out); err != nil {
		fail("%v", err)
	}
	if err := os.MkdirAll(*out, 0o755); err != nil {
		fail("%v", err)
	}
	replace := map[string]string{}

	for _, rw := range rewrites {
		dir := filepath.Join(*repo, rw.dir)
		ents, err := os.ReadDir(dir)
		if err != nil {
			fail("package dir %s: %v", rw.dir, err)
		}
		found := map[string]bool{}
		for _, e := range ents {
			n := e.Name()
			if e.IsDir() || !strings.HasSuffix(n, ".go") || strings.HasSuffix(n, "_test.go") {
				continue
			}
			src := filepath.Join(dir, n)
			data, err := os.ReadFile(src)
			if err != nil {
				fail("%v", err)
			}
			fset := token.NewFileSet()
			f, err := parser.ParseFile(fset, src, data, parser.ImportsOnly)
			if err != nil {
				fail("parse %s: %v", src, err)
			}
			type edit struct {
				start, end int
				text       string
			}
			var edits []edit
			for _, im := range f.Imports {
				p, _ := strconv.Unquote(im.Path.Value)
				shim, ok := rw.imports[p]
				if !ok {
					continue
				}
				found[p] = true
				name := filepath.Base(p)
				if im.Name != nil {
					name = im.Name.Name
				}
				start := fset.Position(im.Pos()).Offset
				end := fset.Position(im.End()).Offset
				edits = append(edits, edit{start, end, fmt.Sprintf("%s %q", name, modPath+"/verifshim/"+shim)})
			}
			if len(edits) == 0 {
				continue
			}
			sort.Slice(edits, func(i, j int) bool { return edits[i].start > edits[j].start })
			for _, e := range edits {
				data = append(append(append([]byte{}, data[:e.start]...), []byte(e.text)...), data[e.end:]...)
			}
			dst := filepath.Join(*out, strings.ReplaceAll(rw.dir, "/", "__")+"__"+n)
			if err := os.WriteFile(dst, data, 0o644); err != nil {
				fail("%v", err)
			}
			replace[src] = dst
		}
		for _, m := range rw.must {
			if !found[m] {
				fail("package %s no longer imports %q: the overlay cannot bind to it", rw.dir, m)
			}
		}
	}

	for _, s := range shimPkgs {
		sdir := filepath.Join(*verif, "shim", s)
		ents, err := os.ReadDir(sdir)
		if err != nil {
			fail("shim %s: %v", s, err)
		}
		for _, e := range ents {
			if strings.HasSuffix(e.Name(), ".go") {
				replace[filepath.Join(*repo, "verifshim", s, e.Name())] = filepath.Join(sdir, e.Name())
			}
		}
	}
	for dir, file := range accessors {
		src := filepath.Join(*verif, "shim", "accessors", file)
		if _, err := os.Stat(src); err != nil {
			fail("accessor %s: %v", file, err)
		}
		replace[filepath.Join(*repo, dir, "zz_verif_accessor.go")] = src
	}

	bz, _ := json.MarshalIndent(map[string]interface{}{"Replace": replace}, "", " ")
	if err := os.WriteFile(filepath.Join(*out, "overlay.json"), bz, 0o644); err != nil {
		fail("%v", err)
	}
	fmt.Printf("gen: %d files in overlay\n", len(replace))
}
