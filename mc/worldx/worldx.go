// Package worldx is the explicit-state explorer over a whole deployment (n real nodes, n real
// airgapped machines, one board).  A world state is (board log, every node's state store,
// every machine's logical operation history); transitions execute the REAL code (Poll tick,
// operator answer through the airgapped machine and the node API, proposals, adversary posts)
// on a live World after restoring the state into it.  States are deduplicated on a canonical
// hash, the search is breadth-first and runs on several worker worlds in parallel.
package worldx

import (
	"crypto/sha256"
	"encoding/hex"
	"encoding/json"
	"fmt"
	"regexp"
	"runtime"
	"sort"
	"strings"
	"sync"
	"sync/atomic"

	"github.com/lidofinance/dc4bc/client/api/dto"
	"github.com/lidofinance/dc4bc/client/types"
	"github.com/lidofinance/dc4bc/fsm/fsm"
	spf "github.com/lidofinance/dc4bc/fsm/state_machines/signature_proposal_fsm"
	"github.com/lidofinance/dc4bc/storage"

	"verif/mc/world"
)

// Action kinds.
const (
	Poll    = "poll"    // node consumes its next board message through the real Poll loop
	Operate = "operate" // operator answers one pending operation (airgapped machine + node API)
	Post    = "post"    // a message is posted from outside (proposal, adversary, replay)
)

type Action struct {
	Kind string           `json:"kind"`
	Node int              `json:"node"`
	Op   string           `json:"op,omitempty"` // operation id
	Note string           `json:"note,omitempty"`
	Msg  *storage.Message `json:"msg,omitempty"` // for Post
}

func (a Action) String() string {
	switch a.Kind {
	case Poll:
		return fmt.Sprintf("poll(%d)", a.Node)
	case Operate:
		return fmt.Sprintf("operate(%d,%s %s)", a.Node, short(a.Op), a.Note)
	default:
		return fmt.Sprintf("post(%s %s)", a.Note, a.Msg.Event)
	}
}

func short(s string) string {
	if len(s) > 6 {
		return s[:6]
	}
	return s
}

// State of the whole world.
type State struct {
	Log    []storage.Message
	Snap   []string   // interned node snapshot hash per node
	Mach   [][]string // logical (state-changing) operation ids processed per machine
	Extra  string     // property-specific history variables (part of the canonical key)
	Depth  int
	Parent *State
	Via    Action
	key    string
	// KeyNoLog drops the board content from the canonical key (inherited by successors). Sound
	// only where nothing re-reads old log entries and every node polls eagerly: then the future
	// of a state is determined by the node stores, the machine histories and the pending
	// operations (DKG phase; checked by the C08 exploration which never merges).
	KeyNoLog bool
}

// Trace returns the action list from the initial state.
func (s *State) Trace() []string {
	var out []string
	for x := s; x != nil && x.Parent != nil; x = x.Parent {
		out = append(out, x.Via.String())
	}
	for i, j := 0, len(out)-1; i < j; i, j = i+1, j-1 {
		out[i], out[j] = out[j], out[i]
	}
	return out
}

// TraceActions returns the actions themselves.
func (s *State) TraceActions() []Action {
	var out []Action
	for x := s; x != nil && x.Parent != nil; x = x.Parent {
		out = append(out, x.Via)
	}
	for i, j := 0, len(out)-1; i < j; i, j = i+1, j-1 {
		out[i], out[j] = out[j], out[i]
	}
	return out
}

type nodeTrans struct {
	snap     string
	appended []storage.Message
	logs     []string
}

// Ctx is shared by all workers of one exploration.
type Ctx struct {
	N       int
	mu      sync.Mutex
	snaps   map[string]world.Snapshot
	ops     map[string]*types.Operation
	results map[string]*types.Operation
	failed  map[string]error // (machine, history, operation) -> how the machine failed on it
	trans   map[string]*nodeTrans

	RealPolls    int64 // Poll ticks actually executed on real code
	CachedPolls  int64
	RealAnswers  int64 // airgapped ProcessOperation executions
	CachedAnswer int64
	Submits      int64
	Rebuilds     int64 // machines rebuilt by replay
}

func NewCtx(n int) *Ctx {
	return &Ctx{N: n, snaps: map[string]world.Snapshot{}, ops: map[string]*types.Operation{},
		results: map[string]*types.Operation{}, failed: map[string]error{}, trans: map[string]*nodeTrans{}}
}

func (c *Ctx) intern(sn world.Snapshot) string {
	h := sn.Hash()
	c.mu.Lock()
	if _, ok := c.snaps[h]; !ok {
		c.snaps[h] = sn
	}
	c.mu.Unlock()
	return h
}

// Snapshot returns the interned snapshot.
func (c *Ctx) Snapshot(h string) world.Snapshot {
	c.mu.Lock()
	defer c.mu.Unlock()
	return c.snaps[h]
}

// Worker owns one live World.
type Worker struct {
	C *Ctx
	W *world.World
	// what is currently materialised in the live world (to skip redundant restores)
	curSnap []string
}

func NewWorker(c *Ctx, w *world.World) *Worker {
	return &Worker{C: c, W: w, curSnap: make([]string, w.N)}
}

// Capture reads the live world into a State (used after a setup phase).
func (k *Worker) Capture() *State {
	s := &State{Log: k.W.Board.Log()}
	for i, n := range k.W.Nodes {
		h := k.C.intern(n.Mem.Snapshot())
		s.Snap = append(s.Snap, h)
		k.curSnap[i] = h
	}
	for _, a := range k.W.Airs {
		s.Mach = append(s.Mach, append([]string(nil), a.Ops...))
	}
	return s
}

func (k *Worker) restoreNode(i int, h string) {
	if k.curSnap[i] == h {
		return
	}
	k.W.Nodes[i].Mem.Restore(k.C.Snapshot(h))
	k.curSnap[i] = h
}

// NodeAt materialises node i as it is in state s and returns the live node (read-only use).
func (k *Worker) NodeAt(s *State, i int) *world.Node {
	k.restoreNode(i, s.Snap[i])
	return k.W.Nodes[i]
}

func msgDigest(m storage.Message) string {
	h := sha256.New()
	fmt.Fprintf(h, "%s|%s|%d|%s|%s|%s|", m.ID, m.DkgRoundID, m.Offset, m.Event, m.SenderAddr, m.RecipientAddr)
	h.Write(m.Data)
	h.Write([]byte{0})
	h.Write(m.Signature)
	return hex.EncodeToString(h.Sum(nil))[:24]
}

// Offset of node i in state s.
func (k *Worker) Offset(s *State, i int) int {
	sn := k.C.Snapshot(s.Snap[i])
	return int(OffsetOf(sn))
}

func OffsetOf(sn world.Snapshot) uint64 {
	v, ok := sn[world.Topic+"_offset"]
	if !ok || len(v) != 8 {
		return 0
	}
	var o uint64
	for i := 7; i >= 0; i-- {
		o = o<<8 | uint64(v[i])
	}
	return o
}

// Pending returns the pending operations of node i in state s (sorted by id).
func (k *Worker) Pending(s *State, i int) []*types.Operation {
	k.restoreNode(i, s.Snap[i])
	ops := k.W.Nodes[i].PendingOps()
	k.C.mu.Lock()
	for _, o := range ops {
		if _, ok := k.C.ops[o.ID]; !ok {
			k.C.ops[o.ID] = o
		}
	}
	k.C.mu.Unlock()
	return ops
}

func (k *Worker) child(s *State, a Action) *State {
	c := &State{Log: s.Log, Snap: append([]string(nil), s.Snap...), Mach: s.Mach, Extra: s.Extra, Depth: s.Depth + 1, Parent: s, Via: a, KeyNoLog: s.KeyNoLog}
	return c
}

// PollNode: node i consumes up to `count` next messages (count<=0: everything) in ONE tick.
func (k *Worker) PollNode(s *State, i int, count int) (*State, []string, error) {
	off := k.Offset(s, i)
	if off >= len(s.Log) {
		return nil, nil, fmt.Errorf("node %d has nothing to poll", i)
	}
	horizon := len(s.Log)
	if count > 0 && off+count < horizon {
		horizon = off + count
	}
	c := k.child(s, Action{Kind: Poll, Node: i})
	// cache key: node state + the exact messages consumed + log length (appended messages get
	// offsets from it)
	hk := sha256.New()
	fmt.Fprintf(hk, "%d|%s|%d|", i, s.Snap[i], len(s.Log))
	for p := off; p < horizon; p++ {
		hk.Write([]byte(msgDigest(s.Log[p])))
	}
	key := hex.EncodeToString(hk.Sum(nil))[:32]
	k.C.mu.Lock()
	tr, ok := k.C.trans[key]
	k.C.mu.Unlock()
	if !ok {
		k.restoreNode(i, s.Snap[i])
		k.W.Board.SetLog(s.Log)
		nd := k.W.Nodes[i]
		nd.Log.Keep = true
		nd.Log.Take()
		if err := nd.Tick(horizon); err != nil {
			return nil, nil, err
		}
		tr = &nodeTrans{logs: nd.Log.Take()}
		tr.snap = k.C.intern(nd.Mem.Snapshot())
		k.curSnap[i] = tr.snap
		full := k.W.Board.Log()
		tr.appended = full[len(s.Log):]
		k.C.mu.Lock()
		k.C.trans[key] = tr
		k.C.mu.Unlock()
		atomic.AddInt64(&k.C.RealPolls, 1)
	} else {
		atomic.AddInt64(&k.C.CachedPolls, 1)
	}
	c.Snap[i] = tr.snap
	if len(tr.appended) > 0 {
		c.Log = append(append([]storage.Message(nil), s.Log...), tr.appended...)
	}
	return c, tr.logs, nil
}

func seqKey(seq []string) string { return strings.Join(seq, ",") }

// ensureMachine makes the live machine i have exactly the logical history seq.
func (k *Worker) ensureMachine(i int, seq []string) error {
	a := k.W.Airs[i]
	if seqKey(a.Ops) == seqKey(seq) {
		return nil
	}
	atomic.AddInt64(&k.C.Rebuilds, 1)
	a.Close()
	na, err := world.NewAirWithMnemonic(a.Label, a.Mnemonic)
	if err != nil {
		return err
	}
	for _, id := range seq {
		k.C.mu.Lock()
		op := k.C.ops[id]
		k.C.mu.Unlock()
		if op == nil {
			return fmt.Errorf("cannot rebuild machine %d: operation %s unknown", i, id)
		}
		if _, err := na.Process(op); err != nil {
			return fmt.Errorf("rebuild machine %d (operation %d of %d in its history, %s): %w", i, len(na.Ops), len(seq), op.Type, err)
		}
	}
	na.Ops = append([]string(nil), seq...)
	k.W.Airs[i] = na
	return nil
}

// MachineAt returns the live machine i brought to the logical history it has in state s.
func (k *Worker) MachineAt(s *State, i int) (*world.Air, error) {
	if err := k.ensureMachine(i, s.Mach[i]); err != nil {
		return nil, err
	}
	return k.W.Airs[i], nil
}

// Answer returns the airgapped machine's result for op in state s (cached: the machine is a
// deterministic function of its mnemonic and operation history, which C12 checks separately).
func (k *Worker) Answer(s *State, i int, op *types.Operation) (*types.Operation, [][]string, error) {
	key := fmt.Sprintf("%d|%s|%s", i, seqKey(s.Mach[i]), op.ID)
	k.C.mu.Lock()
	res, ok := k.C.results[key]
	k.C.ops[op.ID] = op
	k.C.mu.Unlock()
	newSeq := s.Mach[i]
	if !op.IsSigningState() {
		newSeq = append(append([]string(nil), s.Mach[i]...), op.ID)
	}
	if ok {
		atomic.AddInt64(&k.C.CachedAnswer, 1)
	} else {
		if err := k.ensureMachine(i, s.Mach[i]); err != nil {
			return nil, nil, err
		}
		k.C.mu.Lock()
		prev, failedBefore := k.C.failed[key]
		k.C.mu.Unlock()
		if failedBefore {
			return nil, nil, prev // the same (history, operation) fails the same way
		}
		r, err := k.W.Airs[i].Process(op)
		if err != nil {
			// a machine that panicked (or was killed) half-way is not in the state its history
			// names: it must be rebuilt before it is used again
			k.W.Airs[i].Ops = []string{"<left half-way by " + op.ID + ">"}
			err = fmt.Errorf("airgapped machine %d: %w", i, err)
			k.C.mu.Lock()
			k.C.failed[key] = err
			k.C.mu.Unlock()
			return nil, nil, err
		}
		k.W.Airs[i].Ops = append([]string(nil), newSeq...)
		res = r
		k.C.mu.Lock()
		k.C.results[key] = res
		k.C.mu.Unlock()
		atomic.AddInt64(&k.C.RealAnswers, 1)
	}
	mach := make([][]string, len(s.Mach))
	copy(mach, s.Mach)
	mach[i] = newSeq
	return res, mach, nil
}

// OperateOp: operator i answers pending operation opID. mutate (optional) edits the result
// before it is submitted (faulty operator / dealer).
func (k *Worker) OperateOp(s *State, i int, opID string, mutate func(*types.Operation)) (*State, error, error) {
	ops := k.Pending(s, i)
	var op *types.Operation
	for _, o := range ops {
		if o.ID == opID {
			op = o
		}
	}
	if op == nil {
		return nil, nil, fmt.Errorf("operation %s not pending on node %d", opID, i)
	}
	c := k.child(s, Action{Kind: Operate, Node: i, Op: opID, Note: string(op.Type)})
	k.restoreNode(i, s.Snap[i])
	k.W.Board.SetLog(s.Log)
	nd := k.W.Nodes[i]
	var apiErr error
	if fsm.State(op.Type) == spf.StateAwaitParticipantsConfirmations {
		apiErr = nd.Svc.ApproveParticipation(&dto.OperationIdDTO{OperationID: opID})
	} else {
		res, mach, err := k.Answer(s, i, op)
		if err != nil {
			return nil, nil, err
		}
		c.Mach = mach
		r2 := cloneOp(res)
		if mutate != nil {
			mutate(r2)
		}
		apiErr = nd.SubmitResult(r2)
	}
	atomic.AddInt64(&k.C.Submits, 1)
	c.Snap[i] = k.C.intern(nd.Mem.Snapshot())
	k.curSnap[i] = c.Snap[i]
	full := k.W.Board.Log()
	if len(full) > len(s.Log) {
		c.Log = full
	}
	return c, apiErr, nil
}

func cloneOp(o *types.Operation) *types.Operation {
	bz, _ := json.Marshal(o)
	var c types.Operation
	_ = json.Unmarshal(bz, &c)
	return &c
}

// PostMsg appends a message from outside.
func (k *Worker) PostMsg(s *State, m storage.Message, note string) *State {
	mm := m
	c := k.child(s, Action{Kind: Post, Node: -1, Note: note, Msg: &mm})
	k.W.Board.SetLog(s.Log)
	k.W.Board.Post(m)
	c.Log = k.W.Board.Log()
	return c
}

// DrainEager lets the given nodes (all if nil) consume the whole board, in node order, until
// nothing is left (appends by one node are consumed by the others).
func (k *Worker) DrainEager(s *State, nodes []int) (*State, error) {
	if nodes == nil {
		for i := 0; i < k.W.N; i++ {
			nodes = append(nodes, i)
		}
	}
	cur := s
	for {
		progressed := false
		for _, i := range nodes {
			if k.Offset(cur, i) < len(cur.Log) {
				c, _, err := k.PollNode(cur, i, 0)
				if err != nil {
					return nil, err
				}
				c.Parent, c.Via, c.Depth = cur.Parent, cur.Via, cur.Depth // folded into the same transition
				if cur == s {
					c.Parent, c.Via, c.Depth = s.Parent, s.Via, s.Depth
				}
				cur = c
				progressed = true
			}
		}
		if !progressed {
			return cur, nil
		}
	}
}

// Key is the canonical key of a world state: board content (without board-assigned ids),
// node state stores, machine histories, history variables.
func (s *State) Key() string {
	if s.key != "" {
		return s.key
	}
	h := sha256.New()
	for _, m := range s.Log {
		if s.KeyNoLog {
			break
		}
		fmt.Fprintf(h, "%s|%s|%s|%s|", m.DkgRoundID, m.Event, m.SenderAddr, m.RecipientAddr)
		h.Write(m.Data)
		h.Write([]byte{1})
		h.Write(m.Signature)
		h.Write([]byte{2})
	}
	for _, sn := range s.Snap {
		if s.KeyNoLog && CanonSnap != nil {
			h.Write([]byte(CanonSnap(sn)))
		} else {
			h.Write([]byte(sn))
		}
	}
	for _, m := range s.Mach {
		h.Write([]byte(seqKey(m)))
		h.Write([]byte{3})
	}
	h.Write([]byte(s.Extra))
	s.key = hex.EncodeToString(h.Sum(nil))[:32]
	return s.key
}

// CanonSnap maps an interned snapshot hash to the hash of its order-independent form (set by
// the Ctx in use; see Ctx.EnableCanon).
var CanonSnap func(h string) string

var boardIDRe = regexp.MustCompile(`"id":"[^"]*","dkg_round_id":"([^"]*)","offset":\d+`)

// EnableCanon installs the canonicaliser used with KeyNoLog: the tombstone list stores the
// submitted operations including their result messages AFTER the board assigned ids and
// offsets to them (Send writes them back); the node never reads those, and they are the only
// place where the arrival order leaks into a node's store.
func (c *Ctx) EnableCanon() {
	cache := map[string]string{}
	var mu sync.Mutex
	CanonSnap = func(h string) string {
		mu.Lock()
		if v, ok := cache[h]; ok {
			mu.Unlock()
			return v
		}
		mu.Unlock()
		sn := c.Snapshot(h)
		cp := world.Snapshot{}
		for k, v := range sn {
			if k == world.DelOpsKey {
				v = boardIDRe.ReplaceAllString(v, `"id":"","dkg_round_id":"$1","offset":0`)
			}
			cp[k] = v
		}
		out := cp.Hash()
		mu.Lock()
		cache[h] = out
		mu.Unlock()
		return out
	}
}

// ---------------------------------------------------------------------------------------------
// Breadth-first search.

type Successor struct {
	S *State
}

// Model is what a property supplies.
type Model struct {
	// Next enumerates and executes the successors of s on worker k.
	Next func(k *Worker, s *State) ([]*State, error)
	// Check is evaluated on every new state (after it was generated, before deduplication).
	Check func(k *Worker, s *State) error
	// MaxStates caps the search (0 = none); hitting it makes the run non-exhaustive.
	MaxStates int
	// Stop is polled between states (deadline).
	Stop func() bool
}

type Result struct {
	States      int
	Transitions int
	MaxDepth    int
	Terminal    int
	Capped      bool
	Stopped     bool
	Terminals   []*State
}

// BFS explores from init using the workers (one goroutine each).
func BFS(workers []*Worker, init *State, m Model, keepTerminals bool) (*Result, error) {
	res := &Result{}
	seen := map[string]bool{init.Key(): true}
	var mu sync.Mutex
	frontier := []*State{init}
	res.States = 1
	var firstErr error
	for len(frontier) > 0 && firstErr == nil {
		var next []*State
		var idx int64 = -1
		var wg sync.WaitGroup
		for _, wk := range workers {
			wg.Add(1)
			go func(wk *Worker) {
				defer wg.Done()
				for {
					i := int(atomic.AddInt64(&idx, 1))
					if i >= len(frontier) {
						return
					}
					mu.Lock()
					stop := firstErr != nil || res.Capped || res.Stopped
					mu.Unlock()
					if stop {
						return
					}
					if m.Stop != nil && m.Stop() {
						mu.Lock()
						res.Stopped = true
						mu.Unlock()
						return
					}
					s := frontier[i]
					succ, err := m.Next(wk, s)
					if err != nil {
						mu.Lock()
						if firstErr == nil {
							firstErr = fmt.Errorf("%w (trace: %v)", err, s.Trace())
						}
						mu.Unlock()
						return
					}
					if len(succ) == 0 {
						mu.Lock()
						res.Terminal++
						if keepTerminals {
							res.Terminals = append(res.Terminals, s)
						}
						mu.Unlock()
					}
					for _, c := range succ {
						if m.Check != nil {
							if err := m.Check(wk, c); err != nil {
								mu.Lock()
								if firstErr == nil {
									firstErr = err
								}
								mu.Unlock()
								return
							}
						}
						key := c.Key()
						mu.Lock()
						res.Transitions++
						if !seen[key] {
							if m.MaxStates > 0 && res.States >= m.MaxStates {
								res.Capped = true
							} else {
								seen[key] = true
								res.States++
								if c.Depth > res.MaxDepth {
									res.MaxDepth = c.Depth
								}
								next = append(next, c)
							}
						}
						mu.Unlock()
					}
				}
			}(wk)
		}
		wg.Wait()
		if res.Capped || res.Stopped {
			break
		}
		// deterministic order of the next level
		sort.Slice(next, func(i, j int) bool { return next[i].Key() < next[j].Key() })
		frontier = next
	}
	return res, firstErr
}

// NumWorkers is the default parallelism.
func NumWorkers() int {
	n := runtime.NumCPU()
	if n > 16 {
		n = 16
	}
	if n < 1 {
		n = 1
	}
	return n
}
