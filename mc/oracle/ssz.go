package oracle

import (
	"crypto/sha256"
	"encoding/binary"
)

// Independent implementation of the consensus-spec signing root of a BLSToExecutionChange
// (capella/beacon-chain.md, phase0 compute_domain / compute_signing_root, simple-serialize.md).
// It shares no code with the fastssz-generated encoders in pkg/wc_rotation/entity.

func h2(a, b [32]byte) [32]byte {
	var buf [64]byte
	copy(buf[:32], a[:])
	copy(buf[32:], b[:])
	return sha256.Sum256(buf[:])
}

func chunk(b []byte) [32]byte {
	var c [32]byte
	copy(c[:], b)
	return c
}

// merkleize pads the chunk list with zero chunks to the next power of two and reduces it.
func merkleize(chunks [][32]byte) [32]byte {
	n := 1
	for n < len(chunks) {
		n *= 2
	}
	layer := make([][32]byte, n)
	copy(layer, chunks)
	for len(layer) > 1 {
		next := make([][32]byte, len(layer)/2)
		for i := range next {
			next[i] = h2(layer[2*i], layer[2*i+1])
		}
		layer = next
	}
	return layer[0]
}

// bytesVectorRoot is hash_tree_root of a ByteVector[N].
func bytesVectorRoot(b []byte) [32]byte {
	var chunks [][32]byte
	for i := 0; i < len(b); i += 32 {
		end := i + 32
		if end > len(b) {
			end = len(b)
		}
		chunks = append(chunks, chunk(b[i:end]))
	}
	return merkleize(chunks)
}

// Spec constants (mainnet), written out independently of pkg/wc_rotation.
var (
	SpecDomainType            = [4]byte{0x0A, 0, 0, 0}
	SpecGenesisForkVersion    = [4]byte{0, 0, 0, 0}
	SpecGenesisValidatorsRoot = mustHex32("4b363db94e286120d76eb905340fdd4e54bfe9f06bf33ff6cf5ad27f511bfe95")
	SpecLidoWithdrawalKey     = mustHexN("b67aca71f04b673037b54009b760f1961f3836e5714141c892afdb75ec0834dce6784d9c72ed8ad7db328cff8fe9f13e", 48)
	SpecLidoExecutionAddress  = mustHexN("b9d7934878b5fb9610b3fe8a5e441e8fad7e293f", 20)
)

func mustHexN(s string, n int) []byte {
	out := make([]byte, 0, n)
	for i := 0; i+1 < len(s); i += 2 {
		out = append(out, hexNib(s[i])<<4|hexNib(s[i+1]))
	}
	if len(out) != n {
		panic("bad constant")
	}
	return out
}

func mustHex32(s string) [32]byte { return chunk(mustHexN(s, 32)) }

func hexNib(c byte) byte {
	switch {
	case c >= '0' && c <= '9':
		return c - '0'
	case c >= 'a' && c <= 'f':
		return c - 'a' + 10
	}
	panic("bad hex")
}

// SpecSigningRoot = compute_signing_root(BLSToExecutionChange(index, key, addr), compute_domain(...)).
func SpecSigningRoot(validatorIndex uint64) [32]byte {
	var idx [8]byte
	binary.LittleEndian.PutUint64(idx[:], validatorIndex)
	obj := merkleize([][32]byte{chunk(idx[:]), bytesVectorRoot(SpecLidoWithdrawalKey), chunk(SpecLidoExecutionAddress)})
	forkData := merkleize([][32]byte{chunk(SpecGenesisForkVersion[:]), SpecGenesisValidatorsRoot})
	var domain [32]byte
	copy(domain[:4], SpecDomainType[:])
	copy(domain[4:], forkData[:28])
	return merkleize([][32]byte{obj, domain})
}
