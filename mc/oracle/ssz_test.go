package oracle

import (
	"testing"

	"github.com/lidofinance/dc4bc/pkg/wc_rotation"
)

func TestSpecRootAgainstRepo(t *testing.T) {
	for _, i := range []uint64{0, 1, 255, 256, 393395, 1 << 40, ^uint64(0)} {
		a := SpecSigningRoot(i)
		b, err := wc_rotation.GetSigningRoot(i)
		if err != nil || a != b {
			t.Fatalf("index %d: %x vs %x (%v)", i, a, b, err)
		}
	}
}
