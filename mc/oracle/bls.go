// Package oracle holds the independent judges: an Ethereum BLS verifier (prysm/blst, not the
// kyber code dc4bc signs with), polynomial/share consistency checks, an SSZ implementation
// written from the consensus spec.
package oracle

import (
	"fmt"

	"github.com/corestario/kyber"
	"github.com/corestario/kyber/pairing/bls12381"
	"github.com/corestario/kyber/share"
	prysmBLS "github.com/prysmaticlabs/prysm/v3/crypto/bls"

	"github.com/lidofinance/dc4bc/dkg"
)

// VerifyETH judges sig as an Ethereum BLS12-381 signature of msg under the 48-byte public key.
func VerifyETH(pub, msg, sig []byte) error {
	if len(sig) != 96 {
		return fmt.Errorf("signature has %d bytes, want 96", len(sig))
	}
	pk, err := prysmBLS.PublicKeyFromBytes(pub)
	if err != nil {
		return fmt.Errorf("public key rejected by verifier: %w", err)
	}
	s, err := prysmBLS.SignatureFromBytes(sig)
	if err != nil {
		return fmt.Errorf("signature rejected by verifier: %w", err)
	}
	if !s.Verify(pk, msg) {
		return fmt.Errorf("signature does not verify")
	}
	return nil
}

// Suite returns the pairing suite dc4bc uses (no seed: only used for (un)marshalling / public ops).
func Suite() *bls12381.Suite {
	return bls12381.NewBLS12381Suite(nil).(*bls12381.Suite)
}

// GroupKeyBytes returns the constant term of a keyring's public polynomial.
func GroupKeyBytes(k *dkg.BLSKeyring) ([]byte, error) {
	return k.PubPoly.Commit().MarshalBinary()
}

// PolyCommitBytes returns the marshalled commitments of a public polynomial.
func PolyCommitBytes(p *share.PubPoly) ([][]byte, error) {
	_, cs := p.Info()
	var out [][]byte
	for _, c := range cs {
		b, err := c.MarshalBinary()
		if err != nil {
			return nil, err
		}
		out = append(out, b)
	}
	return out, nil
}

// ShareOnPoly checks share_i * G == P(i).
func ShareOnPoly(p *share.PubPoly, s *share.PriShare) bool {
	if s == nil || p == nil {
		return false
	}
	suite := Suite()
	lhs := suite.G1().Point().Mul(s.V, nil)
	rhs := p.Eval(s.I).V
	return lhs.Equal(rhs)
}

// PointBytes marshals a point.
func PointBytes(p kyber.Point) []byte {
	b, _ := p.MarshalBinary()
	return b
}
