// Package kit holds what every check shares: evidence files, violation / known-finding
// reporting, replay artefacts, tier / seed handling, deadlines.
package kit

import (
	"crypto/sha256"
	"encoding/hex"
	"encoding/json"
	"fmt"
	"os"
	"path/filepath"
	"runtime"
	"sort"
	"strconv"
	"strings"
	"sync"
	"time"
)

// Exit codes: 0 held (KNOWN-FINDING lines allowed), 1 violation, 3 infrastructure error.
const (
	ExitOK        = 0
	ExitViolation = 1
	ExitInfra     = 3
)

// Root is the verification root (directory holding MANIFEST.json).
var Root = func() string {
	if r := os.Getenv("VERIF_ROOT"); r != "" {
		return r
	}
	return "/verif"
}()

type Finding struct {
	Property string `json:"property"`
	Key      string `json:"key"`
	What     string `json:"what"`
}

type knownFile struct {
	Known []Finding `json:"known"`
	Fixed []string  `json:"fixed"`
}

// Run is the context of one check invocation.
type Run struct {
	ID    string
	Tier  string
	Seed  int64
	Level string
	start time.Time
	// Deadline after which explorations stop early (exit 0, exhaustive:false)
	Deadline time.Time

	mu         sync.Mutex
	known      map[string]Finding
	knownHit   map[string]int
	violations []violation
	Cov        map[string]interface{}
	Samples    []interface{}
	Assume     []string
	Exhaustive bool
	capped     []string
	out        *os.File
	// replay mode: `--replay <file>` re-runs the (deterministic) check and reports whether the
	// violation class recorded in the file is reproduced
	replayKey string
	lastMem   time.Time
	memOver   bool
}

type violation struct {
	Key    string
	What   string
	Replay string
}

// NewRun prepares a run. level is the EVIDENCE level string.
func NewRun(id, tier, level string, out *os.File) *Run {
	seed, _ := strconv.ParseInt(os.Getenv("VERIF_SEED"), 10, 64)
	r := &Run{ID: id, Tier: tier, Seed: seed, Level: level, start: time.Now(), Cov: map[string]interface{}{},
		known: map[string]Finding{}, knownHit: map[string]int{}, Exhaustive: true, out: out}
	budget := 8 * time.Minute
	if tier == "thorough" {
		budget = 45 * time.Minute
	}
	if v := os.Getenv("VERIF_BUDGET_S"); v != "" {
		if s, err := strconv.Atoi(v); err == nil {
			budget = time.Duration(s) * time.Second
		}
	}
	r.Deadline = r.start.Add(budget)
	for i, a := range os.Args {
		if a == "--replay" && i+1 < len(os.Args) {
			bz, err := os.ReadFile(os.Args[i+1])
			if err != nil {
				r.Infra("cannot read replay file: %v", err)
			}
			var rf struct {
				Property string `json:"property"`
				Key      string `json:"key"`
			}
			if err := json.Unmarshal(bz, &rf); err != nil || rf.Property != id {
				r.Infra("replay file is not a %s replay", id)
			}
			r.replayKey = rf.Key
		}
	}
	if r.replayKey == "" {
		_ = os.RemoveAll(filepath.Join(Root, "replays", id))
	}
	bz, err := os.ReadFile(filepath.Join(Root, "known_findings.json"))
	if err == nil {
		var kf knownFile
		if err := json.Unmarshal(bz, &kf); err != nil {
			r.Infra("known_findings.json does not parse: %v", err)
		}
		for _, f := range kf.Known {
			if f.Property == id {
				r.known[f.Key] = f
			}
		}
	}
	return r
}

// TimeUp reports whether the internal deadline passed (the caller stops exploring, the run is
// reported as not exhaustive; never a violation).
func (r *Run) TimeUp() bool {
	if time.Now().After(r.Deadline) {
		r.Cap("internal deadline reached")
		return true
	}
	// memory guard (the sandbox has no memory limit): checked at most once per second
	r.mu.Lock()
	due := time.Since(r.lastMem) > time.Second
	if due {
		r.lastMem = time.Now()
	}
	over := r.memOver
	r.mu.Unlock()
	if due {
		var ms runtime.MemStats
		runtime.ReadMemStats(&ms)
		if ms.HeapAlloc > memLimit() {
			r.mu.Lock()
			r.memOver = true
			r.mu.Unlock()
			over = true
		}
	}
	if over {
		r.Cap("memory guard reached: exploration stopped early")
		return true
	}
	return false
}

func memLimit() uint64 {
	if v := os.Getenv("VERIF_MEM_GB"); v != "" {
		if g, err := strconv.Atoi(v); err == nil && g > 0 {
			return uint64(g) << 30
		}
	}
	return 20 << 30
}

// Cap records that some bound/cap was hit so the run is not exhaustive.
func (r *Run) Cap(why string) {
	r.mu.Lock()
	defer r.mu.Unlock()
	r.Exhaustive = false
	for _, c := range r.capped {
		if c == why {
			return
		}
	}
	r.capped = append(r.capped, why)
}

func (r *Run) Printf(format string, a ...interface{}) {
	fmt.Fprintf(r.out, format, a...)
}

// Infra aborts with an infrastructure error (never a VIOLATION).
func (r *Run) Infra(format string, a ...interface{}) {
	fmt.Fprintf(r.out, "INFRA-ERROR property=%s %s\n", r.ID, fmt.Sprintf(format, a...))
	os.Exit(ExitInfra)
}

// Violation records a violation. key identifies the failing class (matched against
// known_findings.json); replay is any JSON-able description sufficient to re-execute it.
func (r *Run) Violation(key, what string, replay interface{}) {
	r.mu.Lock()
	defer r.mu.Unlock()
	if _, ok := r.known[key]; ok {
		r.knownHit[key]++
		return
	}
	for _, v := range r.violations {
		if v.Key == key {
			return // one replay per class is enough
		}
	}
	if len(what) > 700 {
		what = what[:700] + " …"
	}
	bz, _ := json.MarshalIndent(map[string]interface{}{"property": r.ID, "key": key, "what": what, "replay": replay}, "", " ")
	h := sha256.Sum256(bz)
	dir := filepath.Join(Root, "replays", r.ID)
	_ = os.MkdirAll(dir, 0o755)
	path := filepath.Join(dir, hex.EncodeToString(h[:])[:16]+".json")
	_ = os.WriteFile(path, bz, 0o644)
	r.violations = append(r.violations, violation{key, what, path})
}

// IsKnown reports whether a class key is a recorded known finding of this property.
func (r *Run) IsKnown(key string) bool {
	r.mu.Lock()
	defer r.mu.Unlock()
	_, ok := r.known[key]
	return ok
}

// NumViolations returns the number of unlisted violation classes so far.
func (r *Run) NumViolations() int {
	r.mu.Lock()
	defer r.mu.Unlock()
	return len(r.violations)
}

// Sample records one explored case for the evidence file (first few are kept).
func (r *Run) Sample(s interface{}) {
	r.mu.Lock()
	defer r.mu.Unlock()
	if len(r.Samples) < 6 {
		r.Samples = append(r.Samples, s)
	}
}

// Add increments an integer coverage counter.
func (r *Run) Add(key string, n int) {
	r.mu.Lock()
	defer r.mu.Unlock()
	v, _ := r.Cov[key].(int)
	r.Cov[key] = v + n
}

func (r *Run) Set(key string, v interface{}) {
	r.mu.Lock()
	defer r.mu.Unlock()
	r.Cov[key] = v
}

func (r *Run) Get(key string) int {
	r.mu.Lock()
	defer r.mu.Unlock()
	v, _ := r.Cov[key].(int)
	return v
}

// Finish writes the evidence file, prints KNOWN-FINDING / VIOLATION lines and exits.
func (r *Run) Finish() {
	if r.replayKey != "" {
		r.mu.Lock()
		found := r.knownHit[r.replayKey] > 0
		path := ""
		for _, v := range r.violations {
			if v.Key == r.replayKey {
				found = true
				path = v.Replay
			}
		}
		r.mu.Unlock()
		if found {
			fmt.Fprintf(r.out, "REPLAY reproduced: class %s fails again on the current tree\n", r.replayKey)
			if path != "" {
				fmt.Fprintf(r.out, "VIOLATION property=%s replay=%s\n", r.ID, path)
			}
			os.Exit(ExitViolation)
		}
		fmt.Fprintf(r.out, "REPLAY not reproduced: class %s does not fail on the current tree\n", r.replayKey)
		os.Exit(ExitOK)
	}
	r.mu.Lock()
	cov := r.Cov
	cov["exhaustive"] = r.Exhaustive
	if len(r.capped) > 0 {
		cov["caps_hit"] = r.capped
	}
	if len(r.Samples) == 0 {
		r.Samples = append(r.Samples, "no sample recorded")
	}
	cov["samples"] = r.Samples
	hits := map[string]int{}
	for k, v := range r.knownHit {
		hits[k] = v
	}
	if len(hits) > 0 {
		cov["known_findings_reproduced"] = hits
	}
	ev := map[string]interface{}{
		"property_id": r.ID,
		"tier":        r.Tier,
		"seed":        r.Seed,
		"level":       r.Level,
		"coverage":    cov,
		"assumptions": r.Assume,
		"wall_s":      time.Since(r.start).Seconds(),
		"violations":  len(r.violations),
	}
	viol := r.violations
	r.mu.Unlock()
	bz, _ := json.MarshalIndent(ev, "", " ")
	_ = os.MkdirAll(filepath.Join(Root, "evidence"), 0o755)
	if err := os.WriteFile(filepath.Join(Root, "evidence", r.ID+".json"), bz, 0o644); err != nil {
		fmt.Fprintf(r.out, "INFRA-ERROR property=%s cannot write evidence: %v\n", r.ID, err)
		os.Exit(ExitInfra)
	}
	keys := make([]string, 0, len(hits))
	for k := range hits {
		keys = append(keys, k)
	}
	sort.Strings(keys)
	for _, k := range keys {
		fmt.Fprintf(r.out, "KNOWN-FINDING: property=%s %s — %s (reproduced %d times)\n", r.ID, k, r.known[k].What, hits[k])
	}
	var summ []string
	for _, k := range []string{"states", "transitions", "evaluations", "distinct_nontrivial", "traces_validated_against_impl"} {
		if v, ok := cov[k]; ok {
			summ = append(summ, fmt.Sprintf("%s=%v", k, v))
		}
	}
	fmt.Fprintf(r.out, "SUMMARY property=%s tier=%s %s exhaustive=%v wall=%.1fs violations=%d\n", r.ID, r.Tier, strings.Join(summ, " "), r.Exhaustive, time.Since(r.start).Seconds(), len(viol))
	if len(viol) > 0 {
		for _, v := range viol {
			fmt.Fprintf(r.out, "VIOLATION property=%s replay=%s\n  class: %s\n  what: %s\n", r.ID, v.Replay, v.Key, v.What)
		}
		os.Exit(ExitViolation)
	}
	os.Exit(ExitOK)
}

// Digest is a short hash of arbitrary JSON-able data.
func Digest(v interface{}) string {
	bz, _ := json.Marshal(v)
	h := sha256.Sum256(bz)
	return hex.EncodeToString(h[:])[:16]
}

// ---------------------------------------------------------------------------------------------
// Supervision of checks whose property says "never a process-terminating fault": Go ends the
// process on an unrecoverable fault (out of memory, concurrent map access, stack exhaustion) without
// running deferred functions, so such a check runs in a child process that notes the input it is
// about to execute; the parent turns the child's death into a violation naming that input.

var markFile = os.Getenv("VERIF_MARK_FILE")

var (
	markMu   sync.Mutex
	markRing []string
)

// Mark notes the input that is executed next (no-op when not supervised). Several workers
// execute inputs at the same time, so the last few marks are kept: the faulting input is among
// them, and the runtime's report (kept by the parent) names the code that faulted.
func Mark(label string) {
	if markFile == "" {
		return
	}
	markMu.Lock()
	markRing = append(markRing, label)
	if len(markRing) > 20 {
		markRing = markRing[len(markRing)-20:]
	}
	bz := []byte(strings.Join(markRing, "\n---\n"))
	markMu.Unlock()
	_ = os.WriteFile(markFile, bz, 0o644)
}

// ReportFatal is called by the supervising parent when the child died: it writes a replay file
// and a minimal evidence file, prints the VIOLATION line and returns the exit code.
func ReportFatal(id, tier, level, lastInput, stderrTail string, out *os.File) int {
	key := id + "/process-terminating-fault"
	dir := filepath.Join(Root, "replays", id)
	_ = os.MkdirAll(dir, 0o755)
	path := filepath.Join(dir, "fatal.json")
	what := "the process executing the check's inputs on the real code was terminated by the Go runtime (unrecoverable fault) while executing one of the inputs in flight (latest last): " + lastInput
	rep := map[string]interface{}{"property": id, "key": key, "what": what, "replay": map[string]interface{}{"last_input": lastInput, "stderr_tail": stderrTail}}
	bz, _ := json.MarshalIndent(rep, "", " ")
	_ = os.WriteFile(path, bz, 0o644)
	seed, _ := strconv.ParseInt(os.Getenv("VERIF_SEED"), 10, 64)
	ev := map[string]interface{}{
		"property_id": id, "tier": tier, "seed": seed, "level": level, "wall_s": 0.0, "violations": 1,
		"coverage": map[string]interface{}{"evaluations": 0, "distinct_nontrivial": 0, "exhaustive": false,
			"rule":    "the supervised run died before it could report its coverage; the input under execution is in samples",
			"samples": []interface{}{lastInput}},
	}
	bz, _ = json.MarshalIndent(ev, "", " ")
	_ = os.MkdirAll(filepath.Join(Root, "evidence"), 0o755)
	_ = os.WriteFile(filepath.Join(Root, "evidence", id+".json"), bz, 0o644)
	fmt.Fprintf(out, "VIOLATION property=%s replay=%s\n  class: %s\n  what: %s\n", id, path, key, what)
	return ExitViolation
}
