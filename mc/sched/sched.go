// Package sched is the stateless, pre-emption-bounded explorer over the cooperative scheduler
// (shim/vsched): it enumerates every schedule of a small set of logical threads whose bodies
// are real dc4bc code, within a bound on the number of pre-emptions (a switch away from a thread
// that could have continued). Executions always run to completion.
package sched

import (
	"fmt"

	"github.com/lidofinance/dc4bc/verifshim/vsched"
)

// Exec is one complete execution.
type Exec struct {
	Choices  []int          // index chosen at every recorded scheduling point
	Points   []vsched.Point // the recorded points (only those with >1 enabled threads)
	Labels   []string       // label of every point passed
	Deadlock bool
	Livelock bool
	Aborted  string
	Obs      interface{} // what the harness observed at the end
}

// Pre-emptions used by the execution up to (not including) point i.
func (x *Exec) preemptionsBefore(i int) int {
	c := 0
	for j := 0; j < i && j < len(x.Points); j++ {
		if x.Points[j].RunningEnabled && x.Points[j].Chosen != 0 {
			c++
		}
	}
	return c
}

// Preemptions of the whole execution.
func (x *Exec) Preemptions() int { return x.preemptionsBefore(len(x.Points)) }

// Schedule renders the thread ids chosen at every recorded point.
func (x *Exec) Schedule() []string {
	var out []string
	for _, p := range x.Points {
		out = append(out, fmt.Sprintf("%s->t%d", p.Label, p.Enabled[p.Chosen]))
	}
	return out
}

// Body builds a fresh instance of the system and returns the thread bodies plus a function
// that observes the final state.
type Body func() (names []string, threads []func(), observe func() interface{})

type Explorer struct {
	Bound      int // max pre-emptions
	Build      Body
	Check      func(x *Exec)
	Executions int
	MaxExec    int // safety cap (0 = none)
	Capped     bool
	Stop       func() bool
	Outcomes   map[string]int
	OutcomeKey func(obs interface{}) string
}

// RunOne executes with the given choice prefix (choice 0 afterwards).
func (e *Explorer) RunOne(prefix []int) *Exec {
	names, threads, observe := e.Build()
	x := &Exec{}
	i := 0
	s := vsched.New(func(p *vsched.Point) int {
		c := 0
		if i < len(prefix) {
			c = prefix[i]
			if c >= len(p.Enabled) {
				panic(fmt.Sprintf("sched: replay diverged at point %d (%s): choice %d of %d enabled", i, p.Label, c, len(p.Enabled)))
			}
		}
		i++
		return c
	})
	s.Run(names, threads)
	x.Points = s.Trace
	x.Labels = s.Labels
	x.Deadlock, x.Livelock, x.Aborted = s.Deadlock, s.Livelock, s.Aborted
	for _, p := range s.Trace {
		x.Choices = append(x.Choices, p.Chosen)
	}
	if !x.Deadlock && x.Aborted == "" {
		x.Obs = observe()
	}
	return x
}

// Explore enumerates every schedule within the bound (depth-first over choice prefixes).
func (e *Explorer) Explore() {
	if e.Outcomes == nil {
		e.Outcomes = map[string]int{}
	}
	e.explore(nil)
}

func (e *Explorer) explore(prefix []int) {
	if e.Capped || (e.Stop != nil && e.Stop()) {
		e.Capped = true
		return
	}
	if e.MaxExec > 0 && e.Executions >= e.MaxExec {
		e.Capped = true
		return
	}
	x := e.RunOne(prefix)
	e.Executions++
	if e.OutcomeKey != nil && x.Obs != nil {
		e.Outcomes[e.OutcomeKey(x.Obs)]++
	}
	e.Check(x)
	for i := len(prefix); i < len(x.Points); i++ {
		p := x.Points[i]
		cost := x.preemptionsBefore(i)
		if p.RunningEnabled {
			cost++ // any alternative at this point switches away from a runnable thread
		}
		if cost > e.Bound {
			continue
		}
		for alt := 1; alt < len(p.Enabled); alt++ {
			np := append(append([]int{}, x.Choices[:i]...), alt)
			e.explore(np)
		}
	}
}
