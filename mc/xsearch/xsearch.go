// Package xsearch is the generic explicit-state breadth-first search used by the single-node and
// FSM-level explorations: states are opaque values with a canonical key, successors are
// produced by executing real code on a per-worker system instance.
package xsearch

import (
	"sort"
	"sync"
	"sync/atomic"
)

type St struct {
	Key    string
	Data   interface{}
	Depth  int
	Parent *St
	Via    string
}

// Trace returns the labels of the transitions from the initial state.
func (s *St) Trace() []string {
	var out []string
	for x := s; x != nil && x.Parent != nil; x = x.Parent {
		out = append(out, x.Via)
	}
	for i, j := 0, len(out)-1; i < j; i, j = i+1, j-1 {
		out[i], out[j] = out[j], out[i]
	}
	return out
}

type Result struct {
	States      int
	Transitions int
	MaxDepth    int
	Terminal    int
	Capped      bool
	Stopped     bool
	All         []*St // every state (if Keep)
}

type Opts struct {
	Workers   int
	MaxStates int
	Stop      func() bool
	Keep      bool
}

// BFS explores from init. next(worker, s) executes every input of the alphabet in s and returns
// the successor states (including self-loops; they only count as transitions).
func BFS(init *St, o Opts, next func(worker int, s *St) ([]*St, error)) (*Result, error) {
	if o.Workers < 1 {
		o.Workers = 1
	}
	res := &Result{States: 1}
	seen := map[string]bool{init.Key: true}
	if o.Keep {
		res.All = append(res.All, init)
	}
	var mu sync.Mutex
	var firstErr error
	frontier := []*St{init}
	for len(frontier) > 0 && firstErr == nil && !res.Capped && !res.Stopped {
		var nextLevel []*St
		var idx int64 = -1
		var wg sync.WaitGroup
		for w := 0; w < o.Workers; w++ {
			wg.Add(1)
			go func(w int) {
				defer wg.Done()
				for {
					i := int(atomic.AddInt64(&idx, 1))
					if i >= len(frontier) {
						return
					}
					mu.Lock()
					halt := firstErr != nil || res.Capped || res.Stopped
					mu.Unlock()
					if halt {
						return
					}
					if o.Stop != nil && o.Stop() {
						mu.Lock()
						res.Stopped = true
						mu.Unlock()
						return
					}
					s := frontier[i]
					succ, err := next(w, s)
					mu.Lock()
					if err != nil {
						if firstErr == nil {
							firstErr = err
						}
						mu.Unlock()
						return
					}
					changed := 0
					for _, c := range succ {
						res.Transitions++
						if c.Key != s.Key {
							changed++
						}
						if seen[c.Key] {
							continue
						}
						if o.MaxStates > 0 && res.States >= o.MaxStates {
							res.Capped = true
							continue
						}
						seen[c.Key] = true
						res.States++
						c.Parent, c.Depth = s, s.Depth+1
						if c.Depth > res.MaxDepth {
							res.MaxDepth = c.Depth
						}
						nextLevel = append(nextLevel, c)
						if o.Keep {
							res.All = append(res.All, c)
						}
					}
					if changed == 0 {
						res.Terminal++
					}
					mu.Unlock()
				}
			}(w)
		}
		wg.Wait()
		sort.Slice(nextLevel, func(i, j int) bool { return nextLevel[i].Key < nextLevel[j].Key })
		frontier = nextLevel
	}
	return res, firstErr
}
