// Package mut is the structure-aware mutation catalogue of the C18 check: every mutation is
// applied at every applicable position of a JSON document (recursively, also inside
// base64-encoded byte fields that themselves hold JSON).
package mut

import (
	"encoding/base64"
	"encoding/json"
	"fmt"
	"sort"
	"strings"
)

// Mutant is one mutated document.
type Mutant struct {
	Path string // where
	Kind string // what
	Doc  []byte
}

type node = interface{}

func clone(v node) node {
	bz, _ := json.Marshal(v)
	var out node
	dec := json.NewDecoder(strings.NewReader(string(bz)))
	dec.UseNumber()
	_ = dec.Decode(&out)
	return out
}

func parse(doc []byte) (node, error) {
	var v node
	dec := json.NewDecoder(strings.NewReader(string(doc)))
	dec.UseNumber()
	if err := dec.Decode(&v); err != nil {
		return nil, err
	}
	return v, nil
}

// replacements for a value of a given JSON kind
func replacementsFor(v node) map[string]node {
	big := make([]node, 10000)
	for i := range big {
		big[i] = json.Number("1")
	}
	out := map[string]node{
		"null": nil,
	}
	switch x := v.(type) {
	case json.Number:
		out["minus-one"] = json.Number("-1")
		out["int31"] = json.Number("2147483648")
		out["int63"] = json.Number("9223372036854775807")
		out["overflow"] = json.Number("18446744073709551616")
		out["float"] = json.Number("1.5")
		out["as-string"] = x.String()
		out["as-array"] = []node{x}
	case string:
		out["empty-string"] = ""
		out["one-char"] = "x"
		out["not-base64"] = "!!!!"
		out["as-number"] = json.Number("7")
		out["as-object"] = map[string]node{}
		out["long-string"] = strings.Repeat("A", 70000)
		if len(x) > 4 {
			out["truncated"] = x[:len(x)/2]
		}
	case bool:
		out["as-string"] = "true"
	case []node:
		out["empty-array"] = []node{}
		out["huge-array"] = big
		out["as-object"] = map[string]node{}
		out["as-string"] = "x"
		if len(x) > 0 {
			out["first-only"] = []node{x[0]}
			out["duplicated"] = append(append([]node{}, x...), x...)
			out["with-null-element"] = append(append([]node{}, x...), nil)
		}
	case map[string]node:
		out["empty-object"] = map[string]node{}
		out["as-array"] = []node{}
		out["as-string"] = "x"
	case nil:
		out["as-number"] = json.Number("0")
		delete(out, "null")
	}
	return out
}

type setter func(root node, val node, del bool) node

// walk enumerates every position with a setter that rebuilds the document.
func walk(path string, v node, set setter, visit func(path string, v node, set setter)) {
	visit(path, v, set)
	switch x := v.(type) {
	case map[string]node:
		keys := make([]string, 0, len(x))
		for k := range x {
			keys = append(keys, k)
		}
		sort.Strings(keys)
		for _, k := range keys {
			k := k
			walk(path+"."+k, x[k], func(root, val node, del bool) node {
				r := clone(root)
				// navigate again on the clone
				return setAt(r, path+"."+k, val, del)
			}, visit)
		}
	case []node:
		for i := range x {
			if i > 2 && i < len(x)-1 {
				continue // first three and the last element of long arrays
			}
			p := fmt.Sprintf("%s[%d]", path, i)
			walk(p, x[i], func(root, val node, del bool) node {
				return setAt(clone(root), p, val, del)
			}, visit)
		}
	}
}

// setAt sets/deletes the value at a path like ".a.b[2].c" inside root (root is modified).
func setAt(root node, path string, val node, del bool) node {
	if path == "" {
		return val
	}
	// tokenise
	var toks []string
	cur := ""
	for i := 0; i < len(path); i++ {
		c := path[i]
		switch c {
		case '.':
			if cur != "" {
				toks = append(toks, cur)
			}
			cur = ""
		case '[':
			if cur != "" {
				toks = append(toks, cur)
			}
			cur = "["
		case ']':
			toks = append(toks, cur)
			cur = ""
		default:
			cur += string(c)
		}
	}
	if cur != "" {
		toks = append(toks, cur)
	}
	var rec func(n node, i int) node
	rec = func(n node, i int) node {
		t := toks[i]
		last := i == len(toks)-1
		if strings.HasPrefix(t, "[") {
			var idx int
			fmt.Sscanf(t[1:], "%d", &idx)
			arr, ok := n.([]node)
			if !ok || idx >= len(arr) {
				return n
			}
			if last {
				if del {
					return append(append([]node{}, arr[:idx]...), arr[idx+1:]...)
				}
				arr[idx] = val
				return arr
			}
			arr[idx] = rec(arr[idx], i+1)
			return arr
		}
		m, ok := n.(map[string]node)
		if !ok {
			return n
		}
		if last {
			if del {
				delete(m, t)
			} else {
				m[t] = val
			}
			return m
		}
		m[t] = rec(m[t], i+1)
		return m
	}
	return rec(root, 0)
}

// Mutants enumerates the catalogue on doc. Strings that are base64 of JSON are descended into
// (depth-limited), and mutated inner documents are re-encoded.
func Mutants(doc []byte, depth int) []Mutant {
	root, err := parse(doc)
	if err != nil {
		return nil
	}
	var out []Mutant
	seen := map[string]bool{string(doc): true}
	add := func(path, kind string, v node) {
		bz, err := json.Marshal(v)
		if err != nil || seen[string(bz)] {
			return
		}
		seen[string(bz)] = true
		out = append(out, Mutant{Path: path, Kind: kind, Doc: bz})
	}
	walk("", root, func(r, val node, del bool) node { return val }, func(path string, v node, set setter) {
		if path != "" {
			add(path, "delete", set(root, nil, true))
		}
		reps := replacementsFor(v)
		kinds := make([]string, 0, len(reps))
		for k := range reps {
			kinds = append(kinds, k)
		}
		sort.Strings(kinds)
		for _, k := range kinds {
			add(path, k, set(root, reps[k], false))
		}
		// nested JSON inside base64 strings
		if s, ok := v.(string); ok && depth > 0 && len(s) >= 4 {
			raw, err := base64.StdEncoding.DecodeString(s)
			if err == nil && len(raw) > 1 && (raw[0] == '{' || raw[0] == '[') {
				for _, in := range Mutants(raw, depth-1) {
					add(path+"->b64"+in.Path, in.Kind, set(root, base64.StdEncoding.EncodeToString(in.Doc), false))
				}
			} else if err == nil && len(raw) > 0 {
				// opaque bytes: truncate, flip, empty
				flip := append([]byte(nil), raw...)
				flip[len(flip)/2] ^= 0x40
				add(path+"->bytes", "flip-middle", set(root, base64.StdEncoding.EncodeToString(flip), false))
				add(path+"->bytes", "truncate-half", set(root, base64.StdEncoding.EncodeToString(raw[:len(raw)/2]), false))
				add(path+"->bytes", "one-byte", set(root, base64.StdEncoding.EncodeToString(raw[:1]), false))
				add(path+"->bytes", "all-ff", set(root, base64.StdEncoding.EncodeToString(bytesOf(0xff, len(raw))), false))
				add(path+"->bytes", "all-zero", set(root, base64.StdEncoding.EncodeToString(bytesOf(0, len(raw))), false))
			}
		}
	})
	// whole-document garbage
	for kind, d := range map[string][]byte{"empty-body": {}, "truncated-json": doc[:len(doc)/2], "not-json": []byte("\x00\xff garbage"), "json-null": []byte("null"), "json-array": []byte("[]"), "json-string": []byte(`"x"`), "json-number": []byte("5")} {
		if !seen[string(d)] {
			seen[string(d)] = true
			out = append(out, Mutant{Path: "", Kind: kind, Doc: d})
		}
	}
	return out
}

func bytesOf(b byte, n int) []byte {
	out := make([]byte, n)
	for i := range out {
		out[i] = b
	}
	return out
}
