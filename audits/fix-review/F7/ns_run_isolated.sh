#!/bin/sh
# runs the given command inside private mount+net namespaces: /tmp is a fresh tmpfs, the worktree is visible at /mnt_f7
set -e
mkdir -p /run/f7wt
mount --bind /tmp/wt/F7 /run/f7wt
mkdir -p /run/f7out
mount --bind /tmp/w9/F7 /run/f7out
mount -t tmpfs tmpfs /tmp
ip link set lo up
cd /run/f7wt
export GOFLAGS=-mod=mod GOPROXY=off GOSUMDB=off GOTOOLCHAIN=local
exec "$@"
