#!/bin/bash
# usage: seedscratch.sh <slot> <patch file | seed dir> <check id> [tier]
# Runs one check against a SCRATCH worktree of /repo with a seeded change applied, from a scratch
# copy of /verif (own build directory, own evidence), so that several seeds can be tried side by
# side and /repo itself is never touched. Prints DETECTED / MISSED. `seedscratch.sh <slot> --rm`
# removes the slot.
set -u
SLOT=$1; BASE=/tmp/scr/$SLOT
if [ "${2:-}" = "--rm" ]; then git -C /repo worktree remove --force "$BASE/repo" 2>/dev/null; rm -rf "$BASE"; exit 0; fi
P=$2; ID=$3; TIER=${4:-quick}
if [ -d "$P" ]; then
  if [ -f "$P/patch-on-head.diff" ] && ! git -C /repo apply --check "$P/patch.diff" 2>/dev/null; then P="$P/patch-on-head.diff"; else P="$P/patch.diff"; fi
fi
P=$(readlink -f "$P")
mkdir -p "$BASE"
if [ ! -d "$BASE/repo" ]; then git -C /repo worktree add --detach "$BASE/repo" HEAD >/dev/null 2>&1 || exit 2; fi
git -C "$BASE/repo" checkout -q --detach "$(git -C /repo rev-parse HEAD)" 2>/dev/null
git -C "$BASE/repo" checkout -q -- . ; git -C "$BASE/repo" clean -fdq
rsync -a --delete --exclude .git --exclude .build --exclude replays --exclude audits --exclude seeded /verif/ "$BASE/verif/"
if [ "$P" != "/dev/null" ]; then git -C "$BASE/repo" apply "$P" || { echo "patch does not apply"; exit 2; }; fi
export VERIF_REPO="$BASE/repo" VERIF_ROOT="$BASE/verif"
out=$("$BASE/verif/bin/check" "$ID" "$TIER" 2>&1); code=$?
git -C "$BASE/repo" checkout -q -- . ; git -C "$BASE/repo" clean -fdq
echo "$out" | tail -${TAIL:-8}
if [ $code -eq 1 ] && echo "$out" | grep -q "^VIOLATION property=$ID"; then echo "RESULT $ID on $(basename "$(dirname "$P")"): DETECTED"; else echo "RESULT $ID on $(basename "$(dirname "$P")"): MISSED (exit $code)"; fi
