#!/bin/bash
# usage: seedbattery.sh [repo]   (default: $VERIF_REPO or /repo; use a SCRATCH copy, never /repo itself while working there)
# Applies every stored seeded change to the repository copy, runs the quick check of its property,
# reverts, and prints one line per seed: DETECTED / MISSED / DOES-NOT-APPLY.
set -u
cd "$(dirname "$0")/.." || exit 2
REPO=${1:-${VERIF_REPO:-/repo}}
export VERIF_REPO=$REPO
for d in seeded/*/; do
  name=$(basename "$d"); id=${name%%-*}
  if ! git -C "$REPO" diff --quiet; then echo "$name: repository copy is not clean"; exit 2; fi
  P="$PWD/$d/patch.diff"
  if ! git -C "$REPO" apply --check "$P" 2>/dev/null; then
    # the same slip re-expressed on the current code, where a later repair rewrote the lines
    P="$PWD/$d/patch-on-head.diff"
    if [ ! -f "$P" ] || ! git -C "$REPO" apply --check "$P" 2>/dev/null; then echo "RESULT $name: DOES-NOT-APPLY (made against an earlier commit, see meta.json)"; continue; fi
    name="$name (patch-on-head)"
  fi
  git -C "$REPO" apply "$P"
  cp evidence/$id.json /tmp/evidence.$id.bat 2>/dev/null
  out=$(bin/check $id quick 2>&1); code=$?
  cp /tmp/evidence.$id.bat evidence/$id.json 2>/dev/null
  git -C "$REPO" checkout -- . ; git -C "$REPO" clean -fdq
  if [ $code -eq 1 ] && echo "$out" | grep -q "^VIOLATION property=$id"; then
    echo "RESULT $name: DETECTED by $id ($(echo "$out" | grep -m1 'class:' | sed 's/ *class: //'))"
  else
    echo "RESULT $name: MISSED by $id (exit $code)"
  fi
done
echo BATTERY-DONE
