#!/opt/veriftools/pyvenv/bin/python
import json, jsonschema, glob, sys
m=json.load(open('/verif/MANIFEST.json')); s=json.load(open('/root/.vp/MANIFEST.schema.json'))
jsonschema.validate(m,s); print("manifest valid")
es=json.load(open('/root/.vp/EVIDENCE.schema.json'))
for f in sorted(glob.glob('/verif/evidence/*.json')):
    try:
        jsonschema.validate(json.load(open(f)),es); print(f,"valid")
    except Exception as e:
        print(f,"INVALID",str(e)[:300]); 
