#!/bin/bash
# Regenerates the overlay from /repo's CURRENT working tree and rebuilds the check binary.
# exit 3 = infrastructure problem.
set -u
. "$(dirname "${BASH_SOURCE[0]}")/env.sh"
cd "$VERIF_ROOT/mc" || exit 3
cp "$REPO/go.sum" "$VERIF_ROOT/mc/go.sum" 2>/dev/null
# (background runs on a snapshot may point at their own copy of the repository)
# (always written, so that a run on a copy never leaves the module pointing at that copy)
if ! grep -q "^replace github.com/lidofinance/dc4bc => $REPO\$" "$VERIF_ROOT/mc/go.mod"; then
  sed -i "s|^replace github.com/lidofinance/dc4bc => .*|replace github.com/lidofinance/dc4bc => $REPO|" "$VERIF_ROOT/mc/go.mod"
fi
(
  flock 9
  go run ./gen -repo "$REPO" -verif "$VERIF_ROOT" -out "$BUILD/ov" >"$BUILD/gen.log" 2>&1 || { cat "$BUILD/gen.log" >&2; exit 3; }
  go build -overlay "$BUILD/ov/overlay.json" -o "$BUILD/vcheck" ./cmd/vcheck >"$BUILD/build.log" 2>&1 || { echo "BUILD-ERROR (not a property violation):" >&2; tail -40 "$BUILD/build.log" >&2; exit 3; }
) 9>"$BUILD/.lock" || exit 3
