#!/bin/bash
# usage: confirm_seed.sh <ID> <dest dir in repo for demo test> <-run regex> [worktree]
# Confirms a seeded change in a scratch worktree: demo passes without the patch, fails with it;
# the repository builds and the baseline packages pass with it.
set -u
export GOFLAGS=-mod=mod GOPROXY=off GOSUMDB=off GOTOOLCHAIN=local
ID=$1; DEST=$2; RX=$3; SRC=${5:-/tmp/wt-out/$ID}; WT=${4:-/tmp/wt/$ID}
cd "$WT" || exit 2
git checkout -q -- . ; git clean -fdq
cp "$SRC"/zz_seeded_demo_test.go "$DEST"/ || exit 2
echo "--- demo WITHOUT patch"; go test -vet=off -count=1 -run "$RX" ./"$DEST"/ 2>&1 | grep -v 'ld: \|^#' | tail -3
git apply "$SRC"/patch.diff || { echo "PATCH DOES NOT APPLY"; exit 2; }
echo "--- build"; go build ./... 2>&1 | grep -v 'ld: \|^#' | tail -3
echo "--- demo WITH patch"; go test -vet=off -count=1 -run "$RX" ./"$DEST"/ 2>&1 | grep -v 'ld: \|^#' | tail -4
rm "$DEST"/zz_seeded_demo_test.go
echo "--- baseline packages WITH patch"
go test -vet=off -count=1 ./airgapped/... ./client/modules/... ./client/repositories/... ./client/services/... ./cmd/... ./fsm/... ./pkg/... ./storage/... ./dkg/... 2>&1 | grep -v 'ld: \|^#\|no test files' | tail -15
go test -vet=off -count=1 -run '^$' ./client/ 2>&1 | grep -v 'ld: \|^#' | tail -2
git checkout -q -- . ; git clean -fdq
