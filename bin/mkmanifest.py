#!/usr/bin/env python3
"""Regenerates MANIFEST.json from bin/manifest_checks.json (the hand-written per-property table)."""
import json, os, sys
root = os.path.dirname(os.path.dirname(os.path.abspath(__file__)))
tbl = json.load(open(os.path.join(root, "bin", "manifest_checks.json")))
props = [json.loads(l)["id"] for l in open(os.path.join(root, "properties.jsonl"))]
checks, na = [], []
for pid in props:
    c = tbl["checks"].get(pid)
    if c is None:
        na.append({"property_id": pid, "reason": tbl["not_applicable"].get(pid, "check not built yet (work in progress); no claim is made")})
        continue
    checks.append({
        "property_id": pid,
        "quick_cmd": f"bin/check {pid} quick",
        "thorough_cmd": f"bin/check {pid} thorough",
        "evidence_file": f"/verif/evidence/{pid}.json",
        "replay_cmd_template": f"bin/check {pid} quick --replay {{path}}",
        "engine": c["engine"],
        "level_claimed": {"category": c["level"], "text": c["text"], "design_ref": c.get("design_ref", "DESIGN.md §4 " + pid)},
        "level_note": c["note"],
        "technique": c["technique"],
    })
m = {
    "version": 1,
    "setup_cmd": "bin/setup",
    "hooks": tbl["hooks"],
    "engines": tbl["engines"],
    "checks": checks,
    "notes": tbl["notes"],
    "not_applicable": na,
}
json.dump(m, open(os.path.join(root, "MANIFEST.json"), "w"), indent=1)
print("checks:", len(checks), "not_applicable:", len(na))
