#!/bin/bash
# usage: seedtest.sh <seed dir (with patch.diff)> <check id> [tier]
# Applies a seeded change to /repo, runs one check, undoes the change. Prints DETECTED / MISSED.
set -u
SEED=$(cd "$1" && pwd); ID=$2; TIER=${3:-quick}
cd /verif || exit 2
if ! git -C /repo diff --quiet; then echo "/repo working tree is not clean"; exit 2; fi
P="$SEED/patch.diff"
if ! git -C /repo apply --check "$P" 2>/dev/null && [ -f "$SEED/patch-on-head.diff" ]; then P="$SEED/patch-on-head.diff"; echo "(using patch-on-head.diff)"; fi
git -C /repo apply "$P" || { echo "patch does not apply"; exit 2; }
trap 'git -C /repo checkout -- . ; git -C /repo clean -fdq' EXIT
cp evidence/$ID.json /tmp/evidence.$ID.bak 2>/dev/null
out=$(bin/check $ID $TIER 2>&1); code=$?
cp /tmp/evidence.$ID.bak evidence/$ID.json 2>/dev/null
echo "$out" | tail -${TAIL:-8}
if [ $code -eq 1 ] && echo "$out" | grep -q "^VIOLATION property=$ID"; then echo "RESULT $ID on $(basename $SEED): DETECTED"; else echo "RESULT $ID on $(basename $SEED): MISSED (exit $code)"; fi
