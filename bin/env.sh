# sourced by bin/setup and bin/check
export GOFLAGS=-mod=mod GOPROXY=off GOSUMDB=off GOTOOLCHAIN=local CGO_ENABLED=1
export GONOSUMDB='*' GONOSUMCHECK=1 GOFLAGS="-mod=mod"
VERIF_ROOT="$(cd "$(dirname "${BASH_SOURCE[0]}")/.." && pwd)"
export VERIF_ROOT
REPO="${VERIF_REPO:-/repo}"
BUILD="$VERIF_ROOT/.build"
mkdir -p "$BUILD"
