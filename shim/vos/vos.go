// Package vos stands in for package os inside storage/file_storage: file operations on the
// board's data file become scheduling points of the cooperative scheduler.
package vos

import (
	"io/fs"
	"os"

	"github.com/lidofinance/dc4bc/verifshim/vsched"
)

const (
	O_RDONLY = os.O_RDONLY
	O_WRONLY = os.O_WRONLY
	O_RDWR   = os.O_RDWR
	O_APPEND = os.O_APPEND
	O_CREATE = os.O_CREATE
	O_EXCL   = os.O_EXCL
	O_SYNC   = os.O_SYNC
	O_TRUNC  = os.O_TRUNC
)

type (
	FileMode = fs.FileMode
	FileInfo = fs.FileInfo
)

var (
	Remove    = os.Remove
	RemoveAll = os.RemoveAll
	Stat      = os.Stat
	MkdirAll  = os.MkdirAll
	ReadFile  = os.ReadFile
	WriteFile = os.WriteFile
	Getenv    = os.Getenv
	TempDir   = os.TempDir
	IsNotExist = os.IsNotExist
	ErrNotExist = os.ErrNotExist
)

type File struct {
	f         *os.File
	afterSeek bool
}

func OpenFile(name string, flag int, perm FileMode) (*File, error) {
	f, err := os.OpenFile(name, flag, perm)
	if err != nil {
		return nil, err
	}
	// (the first read of a freshly opened file is a scheduling point like the first read after a seek)
	vsched.Yield("file.Open")
	return &File{f: f, afterSeek: true}, nil
}

func Open(name string) (*File, error)   { return OpenFile(name, O_RDONLY, 0) }
func Create(name string) (*File, error) { return OpenFile(name, O_RDWR|O_CREATE|O_TRUNC, 0666) }

func (f *File) Seek(off int64, whence int) (int64, error) {
	vsched.Yield("file.Seek")
	f.afterSeek = true
	return f.f.Seek(off, whence)
}

// Read is a scheduling point for the first read after a Seek (one logical "scan the file"
// step); later chunk reads of the same scan are not split further.
func (f *File) Read(p []byte) (int, error) {
	if f.afterSeek {
		f.afterSeek = false
		vsched.Yield("file.Read")
	}
	return f.f.Read(p)
}

// Write is a scheduling point, and a write of more than a few bytes becomes visible in two
// halves with another scheduling point in between: a reader that does not exclude writers can see
// the first half of a line (what a large write(2) on a regular file allows).
func (f *File) Write(p []byte) (int, error) {
	vsched.Yield("file.Write")
	if len(p) < 16 || vsched.Active() == nil {
		return f.f.Write(p)
	}
	h := len(p) / 2
	n, err := f.f.Write(p[:h])
	if err != nil {
		return n, err
	}
	vsched.Yield("file.Write.rest")
	m, err := f.f.Write(p[h:])
	return n + m, err
}

func (f *File) WriteString(s string) (int, error) { return f.Write([]byte(s)) }
func (f *File) Close() error                       { return f.f.Close() }
func (f *File) Name() string                       { return f.f.Name() }
func (f *File) Sync() error                        { return f.f.Sync() }
func (f *File) Stat() (FileInfo, error)            { return f.f.Stat() }
func (f *File) Truncate(n int64) error             { return f.f.Truncate(n) }
