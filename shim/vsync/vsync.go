// Package vsync stands in for package sync inside the dc4bc packages the harness explores with
// the cooperative scheduler.  Without an attached scheduler every type behaves exactly like its
// sync counterpart.  With one, Lock is a scheduling point and waiting for a held lock parks the
// logical thread (so a lock that is added or moved changes the explored interleavings instead
// of dead-locking the harness).
package vsync

import (
	"sync"

	"github.com/lidofinance/dc4bc/verifshim/vsched"
)

type (
	WaitGroup = sync.WaitGroup
	Once      = sync.Once
	Map       = sync.Map
	Pool      = sync.Pool
	Cond      = sync.Cond
	Locker    = sync.Locker
)

var NewCond = sync.NewCond

type Mutex struct{ mu sync.Mutex }

func (m *Mutex) Lock() {
	s := vsched.Active()
	if s == nil {
		m.mu.Lock()
		return
	}
	vsched.Yield("mutex.Lock")
	for !m.mu.TryLock() {
		s.Block(m, "mutex")
	}
}

func (m *Mutex) TryLock() bool { return m.mu.TryLock() }

func (m *Mutex) Unlock() {
	m.mu.Unlock()
	if s := vsched.Active(); s != nil {
		s.Unblock(m)
	}
}

type RWMutex struct{ mu sync.RWMutex }

func (m *RWMutex) Lock() {
	s := vsched.Active()
	if s == nil {
		m.mu.Lock()
		return
	}
	vsched.Yield("rwmutex.Lock")
	for !m.mu.TryLock() {
		s.Block(m, "rwmutex")
	}
}

func (m *RWMutex) Unlock() {
	m.mu.Unlock()
	if s := vsched.Active(); s != nil {
		s.Unblock(m)
	}
}

func (m *RWMutex) RLock() {
	s := vsched.Active()
	if s == nil {
		m.mu.RLock()
		return
	}
	vsched.Yield("rwmutex.RLock")
	for !m.mu.TryRLock() {
		s.Block(m, "rwmutex")
	}
}

func (m *RWMutex) RUnlock() {
	m.mu.RUnlock()
	if s := vsched.Active(); s != nil {
		s.Unblock(m)
	}
}

func (m *RWMutex) TryLock() bool  { return m.mu.TryLock() }
func (m *RWMutex) TryRLock() bool { return m.mu.TryRLock() }
func (m *RWMutex) RLocker() sync.Locker {
	return rlocker{m}
}

type rlocker struct{ m *RWMutex }

func (r rlocker) Lock()   { r.m.RLock() }
func (r rlocker) Unlock() { r.m.RUnlock() }
