// Package vleveldb is a thin wrapper around goleveldb used (through the build overlay) by the
// airgapped machine and the node's state store.  Data lives in the real LevelDB; every durable
// write first calls the harness hook, which may inject a crash (panic with a sentinel) or a
// scheduling point.
package vleveldb

import (
	"errors"
	"sync"

	"github.com/syndtr/goleveldb/leveldb"
	"github.com/syndtr/goleveldb/leveldb/iterator"
	"github.com/syndtr/goleveldb/leveldb/opt"
	"github.com/syndtr/goleveldb/leveldb/util"
)

var (
	ErrNotFound = leveldb.ErrNotFound
	ErrClosed   = leveldb.ErrClosed
)

type Batch = leveldb.Batch

// Hook is called with phase "pre" before and "post" after every durable write.
// op is one of put, delete, write, commit, open.
type Hook func(path, op, phase string, key []byte)

var (
	hookMu sync.Mutex
	hook   Hook
)

func SetHook(h Hook) { hookMu.Lock(); hook = h; hookMu.Unlock() }

func call(path, op, phase string, key []byte) {
	hookMu.Lock()
	h := hook
	hookMu.Unlock()
	if h != nil {
		h(path, op, phase, key)
	}
}

// InjectedFailure: a hook that panics with this value in phase "pre" makes the write FAIL (the
// error is returned to the caller, nothing is written) instead of crashing the process.
type InjectedFailure struct{ Msg string }

func callPre(path, op string, key []byte) (err error) {
	defer func() {
		if r := recover(); r != nil {
			if f, ok := r.(InjectedFailure); ok {
				err = errors.New(f.Msg)
				return
			}
			panic(r)
		}
	}()
	call(path, op, "pre", key)
	return nil
}

type DB struct {
	inner *leveldb.DB
	path  string
}

func OpenFile(path string, o *opt.Options) (*DB, error) {
	call(path, "open", "pre", nil)
	db, err := leveldb.OpenFile(path, o)
	if err != nil {
		return nil, err
	}
	return &DB{inner: db, path: path}, nil
}

func (d *DB) Path() string { return d.path }

func (d *DB) Get(key []byte, ro *opt.ReadOptions) ([]byte, error) { return d.inner.Get(key, ro) }
func (d *DB) Has(key []byte, ro *opt.ReadOptions) (bool, error)   { return d.inner.Has(key, ro) }

func (d *DB) Put(key, value []byte, wo *opt.WriteOptions) error {
	if err := callPre(d.path, "put", key); err != nil {
		return err
	}
	err := d.inner.Put(key, value, wo)
	call(d.path, "put", "post", key)
	return err
}

func (d *DB) Delete(key []byte, wo *opt.WriteOptions) error {
	if err := callPre(d.path, "delete", key); err != nil {
		return err
	}
	err := d.inner.Delete(key, wo)
	call(d.path, "delete", "post", key)
	return err
}

func (d *DB) Write(b *leveldb.Batch, wo *opt.WriteOptions) error {
	call(d.path, "write", "pre", nil)
	err := d.inner.Write(b, wo)
	call(d.path, "write", "post", nil)
	return err
}

func (d *DB) NewIterator(slice *util.Range, ro *opt.ReadOptions) iterator.Iterator {
	return d.inner.NewIterator(slice, ro)
}

func (d *DB) Close() error { return d.inner.Close() }

func (d *DB) CompactRange(r util.Range) error { return d.inner.CompactRange(r) }

type Transaction struct {
	inner *leveldb.Transaction
	path  string
}

func (d *DB) OpenTransaction() (*Transaction, error) {
	tr, err := d.inner.OpenTransaction()
	if err != nil {
		return nil, err
	}
	return &Transaction{inner: tr, path: d.path}, nil
}

func (t *Transaction) Put(key, value []byte, wo *opt.WriteOptions) error {
	return t.inner.Put(key, value, wo)
}
func (t *Transaction) Delete(key []byte, wo *opt.WriteOptions) error { return t.inner.Delete(key, wo) }
func (t *Transaction) Get(key []byte, ro *opt.ReadOptions) ([]byte, error) {
	return t.inner.Get(key, ro)
}
func (t *Transaction) Commit() error {
	call(t.path, "commit", "pre", nil)
	err := t.inner.Commit()
	call(t.path, "commit", "post", nil)
	return err
}
func (t *Transaction) Discard() { t.inner.Discard() }
