// Package vfslock stands in for github.com/juju/fslock inside storage/file_storage: the real
// flock(2) is still taken (through fslock.TryLock), but waiting for it is visible to the
// cooperative scheduler.
package vfslock

import (
	"time"

	"github.com/juju/fslock"
	"github.com/lidofinance/dc4bc/verifshim/vsched"
)

var (
	ErrTimeout = fslock.ErrTimeout
	ErrLocked  = fslock.ErrLocked
)

type Lock struct {
	inner *fslock.Lock
	path  string
}

func New(filename string) *Lock { return &Lock{inner: fslock.New(filename), path: filename} }

func (l *Lock) Lock() error {
	s := vsched.Active()
	if s == nil {
		return l.inner.Lock()
	}
	vsched.Yield("flock.Lock")
	for {
		err := l.inner.TryLock()
		if err == nil {
			return nil
		}
		if err != fslock.ErrLocked {
			return err
		}
		s.Block("flock:"+l.path, "flock")
	}
}

func (l *Lock) TryLock() error { return l.inner.TryLock() }

func (l *Lock) Unlock() error {
	err := l.inner.Unlock()
	if s := vsched.Active(); s != nil {
		vsched.Yield("flock.Unlock")
		s.Unblock("flock:" + l.path)
	}
	return err
}

func (l *Lock) LockWithTimeout(d time.Duration) error { return l.inner.LockWithTimeout(d) }
