// Package vtime is a drop-in stand-in for the parts of package time that dc4bc's node uses.
// It is compiled into the tree only through `go build -overlay` (never committed to /repo).
// Now() and NewTicker() are owned by the verification harness; everything else is an alias.
package vtime

import (
	"sync"
	"time"
)

type (
	Time     = time.Time
	Duration = time.Duration
	Month    = time.Month
	Weekday  = time.Weekday
	Location = time.Location
	Timer    = time.Timer
)

const (
	Nanosecond  = time.Nanosecond
	Microsecond = time.Microsecond
	Millisecond = time.Millisecond
	Second      = time.Second
	Minute      = time.Minute
	Hour        = time.Hour

	RFC3339     = time.RFC3339
	RFC3339Nano = time.RFC3339Nano
)

var (
	UTC   = time.UTC
	Local = time.Local
)

var (
	Unix          = time.Unix
	UnixMilli     = time.UnixMilli
	Date          = time.Date
	Parse         = time.Parse
	ParseDuration = time.ParseDuration
	Sleep         = time.Sleep
	After         = time.After
	AfterFunc     = time.AfterFunc
	NewTimer      = time.NewTimer
)

var (
	mu     sync.Mutex
	nowFn  func() time.Time
	tickFn func(d time.Duration) *Ticker
)

// SetNow installs the virtual clock (nil restores the wall clock).
func SetNow(f func() time.Time) { mu.Lock(); nowFn = f; mu.Unlock() }

// SetTickerHook installs the ticker factory (nil restores real tickers).
func SetTickerHook(f func(d time.Duration) *Ticker) { mu.Lock(); tickFn = f; mu.Unlock() }

func Now() time.Time {
	mu.Lock()
	f := nowFn
	mu.Unlock()
	if f != nil {
		return f()
	}
	return time.Now()
}

func Since(t time.Time) time.Duration { return Now().Sub(t) }
func Until(t time.Time) time.Duration { return t.Sub(Now()) }

// Ticker mirrors time.Ticker's surface used by the node (field C, Stop, Reset).
type Ticker struct {
	C    <-chan time.Time
	real *time.Ticker
	stop func()
}

func (t *Ticker) Stop() {
	if t.real != nil {
		t.real.Stop()
	}
	if t.stop != nil {
		t.stop()
	}
}

func (t *Ticker) Reset(d time.Duration) {
	if t.real != nil {
		t.real.Reset(d)
	}
}

// NewHarnessTicker builds a ticker fed by the harness through ch.
func NewHarnessTicker(ch <-chan time.Time, stop func()) *Ticker { return &Ticker{C: ch, stop: stop} }

func NewTicker(d time.Duration) *Ticker {
	mu.Lock()
	f := tickFn
	mu.Unlock()
	if f != nil {
		return f(d)
	}
	rt := time.NewTicker(d)
	return &Ticker{C: rt.C, real: rt}
}

func Tick(d time.Duration) <-chan time.Time { return NewTicker(d).C }
