// Package vsched is a cooperative scheduler used by the verification harness to enumerate
// thread interleavings of real dc4bc code.  Hooked operations (vsync locks, state-store and
// board operations wrapped by the harness, file operations of the file board) call Yield()
// before they act; exactly one logical thread runs at a time, and at every scheduling point the
// harness-supplied chooser decides which enabled thread continues.
//
// With no scheduler attached every entry point is a no-op, so the shimmed code behaves exactly
// like the original.
package vsched

import (
	"bufio"
	"fmt"
	"io"
	"os"
	"strings"
	"sync"
	"sync/atomic"
)

// Point is one scheduling decision.
type Point struct {
	Label          string
	Running        int   // id of the thread that reached the point, -1 if it just exited or blocked
	RunningEnabled bool  // the running thread could have continued
	Enabled        []int // canonical order: running thread first if enabled, then ascending ids
	Chosen         int   // index into Enabled
}

type thread struct {
	id      int
	name    string
	resume  chan struct{}
	done    bool
	blocked interface{}
	spins   int
}

// Sched is one controlled execution.
type Sched struct {
	mu       sync.Mutex
	threads  []*thread
	running  *thread
	Choose   func(p *Point) int
	Trace    []Point
	Labels   []string // label of every point passed (including single-choice ones)
	MaxSteps int
	steps    int
	finished chan struct{}
	Deadlock bool
	Livelock bool
	Aborted  string
	exited   int32
	// remote != nil: this process is a CHILD whose single thread of interest is scheduled by a
	// scheduler living in the parent process; every scheduling point is reported over a pipe and
	// the thread continues when the parent says so (see AttachRemote).
	remote *remote
}

type remote struct {
	in  *bufio.Reader
	out io.Writer
}

// AttachRemote makes every scheduling point of this process a request to a scheduler in another
// process: "Y <label>" / "B <key>\t<label>" are written to out and the caller waits for a line on
// in; "U <key>" is written without waiting. DetachRemote ends it.
func AttachRemote(in *bufio.Reader, out io.Writer) {
	s := &Sched{remote: &remote{in: in, out: out}}
	if !cur.CompareAndSwap(nil, s) {
		panic("vsched: a scheduler is already attached")
	}
}

func DetachRemote() { cur.Store(nil) }

// keyString names a blocking key across processes: a string key (the path of a lock file) means
// the same thing in every process, anything else (a mutex address) belongs to this process.
func keyString(k interface{}) string {
	if str, ok := k.(string); ok {
		return clean(str)
	}
	return fmt.Sprintf("pid%d:%p", os.Getpid(), k)
}

func clean(x string) string {
	return strings.NewReplacer("\n", " ", "\t", " ").Replace(x)
}

func (r *remote) ask(line string) {
	if _, err := io.WriteString(r.out, line+"\n"); err != nil {
		panic("vsched: the parent scheduler is gone: " + err.Error())
	}
	ans, err := r.in.ReadString('\n')
	if err != nil {
		panic("vsched: the parent scheduler is gone: " + err.Error())
	}
	if strings.HasPrefix(ans, "X") { // the execution was aborted in the parent
		panic(abortSentinel{"aborted by the parent scheduler"})
	}
}

// IsAbort tells whether a recovered panic value is the scheduler's own unwinding signal.
func IsAbort(v interface{}) bool { _, ok := v.(abortSentinel); return ok }

var cur atomic.Pointer[Sched]

// Active returns the attached scheduler or nil.
func Active() *Sched { return cur.Load() }

// New creates a scheduler; choose picks an index into p.Enabled.
func New(choose func(p *Point) int) *Sched {
	return &Sched{Choose: choose, MaxSteps: 200000, finished: make(chan struct{})}
}

type abortSentinel struct{ why string }

// Run executes the bodies as logical threads under the scheduler and returns when all of them
// finished (or a deadlock / step bound was hit).
func (s *Sched) Run(names []string, bodies []func()) {
	if !cur.CompareAndSwap(nil, s) {
		panic("vsched: a scheduler is already attached")
	}
	defer cur.Store(nil)
	for i := range bodies {
		t := &thread{id: i, name: names[i], resume: make(chan struct{}, 1)}
		s.threads = append(s.threads, t)
	}
	for i, b := range bodies {
		t, body := s.threads[i], b
		go func() {
			<-t.resume
			defer func() {
				if r := recover(); r != nil {
					if a, ok := r.(abortSentinel); ok {
						_ = a
						s.threadExit(t, true)
						return
					}
					s.mu.Lock()
					if s.Aborted == "" {
						s.Aborted = fmt.Sprintf("panic in thread %s: %v", t.name, r)
					}
					s.mu.Unlock()
					s.threadExit(t, false)
					return
				}
				s.threadExit(t, false)
			}()
			body()
		}()
	}
	s.mu.Lock()
	next := s.pick("start", nil)
	s.mu.Unlock()
	if next != nil {
		next.resume <- struct{}{}
	}
	<-s.finished
}

// enabledList returns enabled thread ids in canonical order.
func (s *Sched) enabledList(running *thread) ([]int, bool) {
	var out []int
	runEn := false
	if running != nil && !running.done && running.blocked == nil {
		out = append(out, running.id)
		runEn = true
	}
	for _, t := range s.threads {
		if t == running || t.done || t.blocked != nil {
			continue
		}
		out = append(out, t.id)
	}
	return out, runEn
}

// pick records a scheduling point and returns the thread to run next (nil = nothing enabled).
// caller holds s.mu.
func (s *Sched) pick(label string, running *thread) *thread {
	en, runEn := s.enabledList(running)
	s.Labels = append(s.Labels, label)
	if len(en) == 0 {
		return nil
	}
	idx := 0
	if len(en) > 1 {
		p := Point{Label: label, Running: -1, RunningEnabled: runEn, Enabled: en}
		if running != nil {
			p.Running = running.id
		}
		idx = s.Choose(&p)
		if idx < 0 || idx >= len(en) {
			panic(fmt.Sprintf("vsched: chooser returned %d for %d enabled threads (replay diverged)", idx, len(en)))
		}
		p.Chosen = idx
		s.Trace = append(s.Trace, p)
	}
	s.running = s.threads[en[idx]]
	return s.running
}

func (s *Sched) finishLocked() {
	if atomic.CompareAndSwapInt32(&s.exited, 0, 1) {
		close(s.finished)
	}
}

func (s *Sched) threadExit(t *thread, aborted bool) {
	s.mu.Lock()
	t.done = true
	alldone := true
	for _, x := range s.threads {
		if !x.done {
			alldone = false
		}
	}
	if alldone || s.Aborted != "" {
		s.finishLocked()
		s.mu.Unlock()
		return
	}
	next := s.pick("exit:"+t.name, nil)
	if next == nil {
		s.Deadlock = true
		s.finishLocked()
		s.mu.Unlock()
		return
	}
	s.mu.Unlock()
	next.resume <- struct{}{}
}

// Yield is a scheduling point of the currently running logical thread.
func Yield(label string) {
	s := cur.Load()
	if s == nil {
		return
	}
	s.yield(label, nil)
}

func (s *Sched) yield(label string, blockOn interface{}) {
	if s.remote != nil {
		if blockOn != nil {
			s.remote.ask("B " + keyString(blockOn) + "\t" + clean(label))
		} else {
			s.remote.ask("Y " + clean(label))
		}
		return
	}
	s.mu.Lock()
	if atomic.LoadInt32(&s.exited) == 1 {
		s.mu.Unlock()
		if blockOn != nil {
			panic(abortSentinel{"finished"})
		}
		return
	}
	t := s.running
	if t == nil {
		s.mu.Unlock()
		return
	}
	s.steps++
	if s.steps > s.MaxSteps {
		s.Livelock = true
		s.Aborted = "step bound exceeded"
		s.finishLocked()
		s.mu.Unlock()
		panic(abortSentinel{"steps"})
	}
	t.blocked = blockOn
	next := s.pick(label, t)
	if next == nil {
		s.Deadlock = true
		s.finishLocked()
		s.mu.Unlock()
		panic(abortSentinel{"deadlock"})
	}
	s.mu.Unlock()
	if next == t {
		return
	}
	next.resume <- struct{}{}
	<-t.resume
	if atomic.LoadInt32(&s.exited) == 1 {
		panic(abortSentinel{"finished"})
	}
}

// Block parks the running thread until Unblock(key) is called by another thread.
func (s *Sched) Block(key interface{}, label string) { s.yield("block:"+label, key) }

// Unblock makes every thread parked on key runnable again (it does not switch).
func (s *Sched) Unblock(key interface{}) {
	if s.remote != nil {
		if _, err := io.WriteString(s.remote.out, "U "+keyString(key)+"\n"); err != nil {
			panic("vsched: the parent scheduler is gone: " + err.Error())
		}
		return
	}
	s.mu.Lock()
	for _, t := range s.threads {
		if t.blocked == key {
			t.blocked = nil
		}
	}
	s.mu.Unlock()
}

// RunningName returns the name of the running logical thread ("" if none).
func (s *Sched) RunningName() string {
	if s.remote != nil {
		return "remote"
	}
	s.mu.Lock()
	defer s.mu.Unlock()
	if s.running == nil {
		return ""
	}
	return s.running.name
}
