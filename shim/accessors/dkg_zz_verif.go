package dkg

// Accessors for verification oracles; added through the build overlay only.

import "github.com/corestario/kyber"

// VerifDealerCoefficients returns the coefficients of this participant's secret dealer polynomial.
func (d *DKG) VerifDealerCoefficients() []kyber.Scalar {
	if d.instance == nil {
		return nil
	}
	return d.instance.GetDealer().PrivatePoly().Coefficients()
}
