package state

// Accessors for the verification harness; added through the build overlay only.

func (s *LevelDBState) VerifClose() error { return s.stateDb.Close() }
func (s *LevelDBState) VerifPath() string { return s.stateDbPath }
