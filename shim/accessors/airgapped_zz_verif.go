package airgapped

// Accessors for verification oracles; added through the build overlay only.

import (
	"github.com/corestario/kyber"

	client "github.com/lidofinance/dc4bc/client/types"
	"github.com/lidofinance/dc4bc/dkg"
)

// VerifErrorResult returns the result the machine writes when its handler for o fails with e
// (the product's own writeErrorRequestToOperation, so that the harness never invents the format).
func (am *Machine) VerifErrorResult(o client.Operation, e error) (*client.Operation, error) {
	o.ResultMsgs = nil
	err := am.writeErrorRequestToOperation(&o, e)
	return &o, err
}

func (am *Machine) VerifSecKey() kyber.Scalar { return am.secKey }
func (am *Machine) VerifBaseSeed() []byte     { return am.baseSeed }
func (am *Machine) VerifDKG(round string) *dkg.DKG {
	return am.dkgInstances[round]
}
func (am *Machine) VerifCloseDB() error { return am.db.Close() }
func (am *Machine) VerifDBGet(key string) ([]byte, error) {
	return am.db.Get([]byte(key), nil)
}
func (am *Machine) VerifDBKeys() []string {
	it := am.db.NewIterator(nil, nil)
	defer it.Release()
	var out []string
	for it.Next() {
		out = append(out, string(it.Key()))
	}
	return out
}
